"""evidence/<id>.json writer + structural self-check against the schema's rules"""
import json, os

ROOT = os.path.dirname(os.path.dirname(os.path.abspath(__file__)))
SCHEMA = "/root/.vp/EVIDENCE.schema.json"


def build(prop, tier, seed, level, acc, wall, rule, assumptions, bounds, exhaustive, nviol, extra=None):
    c = acc.c
    cov = {
        "states": int(c.get("states", 0)),
        "transitions": int(c.get("transitions", 0)),
        "traces_validated_against_impl": int(c.get("traces", 0)),
        "evaluations": int(c.get("evaluations", 0) or c.get("transitions", 0)),
        "distinct_nontrivial": len(acc.distinct),
        "rule": rule,
        "samples": acc.samples[:6],
        "exhaustive": bool(exhaustive) and not acc.caps,
        "bounds": bounds,
        "caps_hit": acc.caps,
        "protocol_degenerate": dict(acc.degenerate),
        "degraded": acc.degraded,
        "per_instance": {k: dict(v) for k, v in sorted(acc.per.items())},
        "counters": {k: int(v) for k, v in sorted(c.items())},
        "notes": acc.notes,
    }
    if extra:
        cov.update(extra)
    cov.update(acc.extra)
    return {"property_id": prop, "tier": tier, "seed": int(seed), "level": level, "coverage": cov,
            "assumptions": assumptions, "wall_s": round(wall, 3), "violations": int(nviol)}


def selfcheck(ev):
    """the rules of EVIDENCE.schema.json that matter (the tooling venv with jsonschema is not
    the interpreter the checks run on)"""
    cov = ev["coverage"]
    lvl = ev["level"]
    probs = []
    if lvl == "model_checking":
        if cov["states"] < 1 or cov["transitions"] < 1 or not cov["samples"]:
            probs.append("model_checking needs states>=1, transitions>=1, samples")
    else:
        if cov["evaluations"] < 1 or cov["distinct_nontrivial"] < 2 or not cov["samples"]:
            probs.append("needs evaluations>=1, distinct_nontrivial>=2, samples")
    return probs


def out_root():
    """evidence/ and replays/ live in /verif only for runs against /repo itself; experiments on
    scratch copies (VERIF_REPO) write to $VERIF_OUT (default /tmp/verif-alt)"""
    from . import target
    if target.REPO == os.path.realpath("/repo"):
        return ROOT
    d = os.environ.get("VERIF_OUT", "/tmp/verif-alt")
    os.makedirs(d, exist_ok=True)
    return d


def write(ev):
    d = os.path.join(out_root(), "evidence")
    os.makedirs(d, exist_ok=True)
    path = os.path.join(d, ev["property_id"] + ".json")
    tmp = path + ".tmp"
    with open(tmp, "w") as f:
        json.dump(ev, f, indent=1, sort_keys=True)
    os.replace(tmp, path)
    return path
