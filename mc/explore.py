"""Explorers.

E2  choice_tree(): complete choice tree of the entropy function (every answer of every draw,
    depth-bounded by the number of re-draws), stateless: each node re-executes the real code
    from scratch under a Script that replays the prefix - a divergent prefix is a hard error.
E1  bfs(): explicit-state breadth-first search over event histories of real objects; a state
    is rebuilt by replaying its history on fresh objects; de-duplication on a canonical form;
    runs to fixpoint (frontier empty) or to a depth bound."""
import collections, itertools

from .target import Script, EntropyExhausted

PENDING = ("pending",)


def all_answers(k):
    if k == 0:
        return [b""]
    if k == 1:
        return [bytes([i]) for i in range(256)]
    if k == 2:
        return [bytes([i, j]) for i in range(256) for j in range(256)]
    raise ValueError("answer space of %d bytes is not enumerable" % k)


def choice_tree(fn, max_draws, menu=None, max_draws_wide=1):
    """fn(entropy_f) -> result.  Yields (answers, result | PENDING, request_sizes).  Every answer of every draw is
    explored (menu(k, depth) may supply a structured menu for draws wider than 2 bytes); a branch is PENDING when the
    code asks for more than max_draws draws (max_draws_wide for draws of 2 or more bytes, whose answer space is 65536+)."""
    stack = [()]
    while stack:
        prefix = stack.pop()
        sc = Script(list(prefix))
        try:
            res = fn(sc)
            exhausted = (res == ("exc", "EntropyExhausted"))
        except EntropyExhausted:
            exhausted = True
        if exhausted:
            if len(sc.calls) <= len(prefix):
                raise RuntimeError("divergence while replaying entropy prefix")
            k = sc.calls[len(prefix)]
            if any(len(a) != n for a, n in zip(prefix, sc.calls)):
                raise RuntimeError("divergence: request sizes changed under the same prefix")
            if len(prefix) >= max_draws or (k >= 2 and len(prefix) >= max_draws_wide and not getattr(menu, "all_widths", False)):
                yield prefix, PENDING, list(sc.calls)
                continue
            answers = None
            if menu is not None and (k > 2 or getattr(menu, "all_widths", False)):
                answers = menu(k, len(prefix))
            if answers is None:
                answers = all_answers(k)
            for a in reversed(answers):
                stack.append(prefix + (a,))
            continue
        yield prefix, res, list(sc.calls)


def bfs(initial_history, enabled, build, canon, check, max_depth=None, max_states=None):
    """generic explicit-state search.  build(history) -> state object (fresh real objects, history replayed);
    enabled(state) -> events; canon(state) -> hashable; check(history, event, state_after) called on every transition.
    Returns dict(states, transitions, max_depth, fixpoint, capped)."""
    s0 = build(list(initial_history))
    seen = {canon(s0)}
    frontier = collections.deque([list(initial_history)])
    transitions, maxd, capped = 0, 0, False
    while frontier:
        hist = frontier.popleft()
        state = build(hist)
        for ev in enabled(state):
            nxt_hist = hist + [ev]
            nxt = build(nxt_hist)
            transitions += 1
            check(hist, ev, nxt)
            k = canon(nxt)
            if k in seen:
                continue
            if max_states is not None and len(seen) >= max_states:
                capped = True
                continue
            seen.add(k)
            if max_depth is None or len(nxt_hist) - len(initial_history) < max_depth:
                frontier.append(nxt_hist)
                maxd = max(maxd, len(nxt_hist) - len(initial_history))
            else:
                capped = capped or False
    return {"states": len(seen), "transitions": transitions, "max_depth": maxd, "capped": capped}
