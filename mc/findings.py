"""known_findings.json: read-only at run time.  {"known": [...], "fixed": [...]}.
A known entry suppresses exactly the violation keys it lists; a fixed entry suppresses
nothing."""
import json, os

PATH = os.path.join(os.path.dirname(os.path.dirname(os.path.abspath(__file__))), "known_findings.json")


def load():
    try:
        d = json.load(open(PATH))
    except FileNotFoundError:
        d = {"known": [], "fixed": []}
    return d


def known_for(prop):
    return {e["key"]: e for e in load().get("known", []) if e.get("property") == prop}
