"""Shared-heap fingerprint: deep, cycle-safe traversal of everything reachable from the
spake2.* modules that library code could write to and another session could read:
module globals, class attributes, instance dicts of library objects, containers, function
defaults / kwdefaults / closure cells / attribute dicts, memoiser sizes.

Used for STATE IDENTITY (C16 BFS) and for the partial-order argument (does any session step
write shared state?) - never as an oracle: a correct cache is not a violation."""
import sys, types, hashlib

_SKIP_MOD_ATTRS = {"__builtins__", "__loader__", "__spec__", "__cached__", "__doc__", "__file__", "__path__", "__package__", "__name__"}
_SCALARS = (int, float, bytes, str, bool, type(None), complex, bytearray)


def _is_lib(modname):
    return isinstance(modname, str) and (modname == "spake2" or modname.startswith("spake2.")) and ".test" not in modname


def roots():
    return [(n, m) for n, m in sorted(sys.modules.items()) if m is not None and _is_lib(n)]


def fingerprint(extra_roots=()):
    h = hashlib.blake2b(digest_size=16)
    seen = {}
    keep = []          # keep every visited object alive: ids of freed temporaries must not be reused during the walk
    count = [0]

    def tok(s):
        h.update(s if isinstance(s, bytes) else str(s).encode())
        h.update(b"\x1f")

    def walk(o, depth=0):
        if isinstance(o, _SCALARS):
            tok(type(o).__name__)
            tok(repr(o) if not isinstance(o, (bytes, bytearray)) else bytes(o))
            return
        i = id(o)
        if i in seen:
            tok("@%d" % seen[i])
            return
        seen[i] = len(seen)
        keep.append(o)
        count[0] += 1
        if depth > 60:
            tok("deep")
            return
        if isinstance(o, types.ModuleType):
            tok("module " + o.__name__)
            if not _is_lib(o.__name__):
                return
            for k in sorted(vars(o)):
                if k in _SKIP_MOD_ATTRS:
                    continue
                tok(k)
                walk(vars(o)[k], depth + 1)
            return
        if isinstance(o, type):
            tok("class %s.%s" % (o.__module__, o.__qualname__))
            if not _is_lib(o.__module__):
                return
            for k in sorted(vars(o)):
                if k in ("__dict__", "__weakref__", "__doc__", "__module__", "__qualname__"):
                    continue
                tok(k)
                walk(vars(o)[k], depth + 1)
            return
        if isinstance(o, (types.FunctionType,)):
            tok("function %s.%s" % (o.__module__, o.__qualname__))
            if not _is_lib(o.__module__):
                return
            tok(hashlib.blake2b(o.__code__.co_code, digest_size=8).digest())
            walk(o.__defaults__, depth + 1)
            walk(o.__kwdefaults__, depth + 1)
            if o.__closure__:
                for c in o.__closure__:
                    try:
                        walk(c.cell_contents, depth + 1)
                    except ValueError:
                        tok("empty-cell")
            if o.__dict__:
                walk(o.__dict__, depth + 1)
            return
        if isinstance(o, (staticmethod, classmethod)):
            tok(type(o).__name__)
            walk(o.__func__, depth + 1)
            return
        if isinstance(o, types.MethodType):
            tok("method")
            walk(o.__func__, depth + 1)
            walk(o.__self__, depth + 1)
            return
        if isinstance(o, dict):
            tok("dict %d" % len(o))
            try:
                items = sorted(o.items(), key=lambda kv: repr(kv[0]))
            except Exception:
                items = list(o.items())
            for k, v in items:
                walk(k, depth + 1)
                walk(v, depth + 1)
            return
        if isinstance(o, (list, tuple)):
            tok("%s %d" % (type(o).__name__, len(o)))
            for v in o:
                walk(v, depth + 1)
            return
        if isinstance(o, (set, frozenset)):
            tok("set %d" % len(o))
            for v in sorted(o, key=repr):
                walk(v, depth + 1)
            return
        ci = getattr(o, "cache_info", None)
        if callable(ci):
            try:
                tok("cache %d" % ci().currsize)
            except Exception:
                pass
            w = getattr(o, "__wrapped__", None)
            if w is not None:
                walk(w, depth + 1)
            return
        tname = "%s.%s" % (type(o).__module__, type(o).__qualname__)
        tok("obj " + tname)
        if _is_lib(type(o).__module__) or _is_lib(getattr(o, "__module__", None)):
            d = getattr(o, "__dict__", None)
            if isinstance(d, dict):
                walk(d, depth + 1)
            for s in getattr(type(o), "__slots__", ()) or ():
                if hasattr(o, s):
                    tok(s)
                    walk(getattr(o, s), depth + 1)
        elif hasattr(o, "_i") and hasattr(o, "_pw"):   # harness wrapper group: follow to the wrapped library group
            walk(o.__dict__, depth + 1)
        return

    for n, m in roots():
        walk(m)
    for r in extra_roots:
        walk(r)
    return h.hexdigest(), count[0]
