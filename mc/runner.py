"""CLI:  python -m mc.runner C07 --tier quick      (cwd /verif)
         python -m mc.runner --replay replays/C07-xxxx.json
Exit 0: property held on everything explored (KNOWN-FINDING lines allowed);
exit 1 + 'VIOLATION property=<id> replay=<path>' otherwise; exit 2: harness cannot run."""
import sys, os, time, json, argparse, importlib, hashlib, traceback

os.environ.setdefault("PYTHONHASHSEED", "0")
sys.dont_write_bytecode = True

ROOT = os.path.dirname(os.path.dirname(os.path.abspath(__file__)))


def _reexec_if_needed():
    # hash randomisation must be fixed before the interpreter starts
    if os.environ.get("PYTHONHASHSEED") != "0" or os.environ.get("_MC_REEXEC") != "1":
        env = dict(os.environ, PYTHONHASHSEED="0", _MC_REEXEC="1", PYTHONDONTWRITEBYTECODE="1")
        os.execve(sys.executable, [sys.executable, "-m", "mc.runner"] + sys.argv[1:], env)


def _replay_in_env(fn, rec):
    """replays of violations found under a process-wide setting (e.g. DEBUG logging switched on) run under the same setting"""
    from . import target
    env = rec.get("replay", {}).get("env") if isinstance(rec.get("replay"), dict) else None
    if env == "debug-logging":
        with target.debug_logging():
            return fn(rec)
    if isinstance(env, str) and env.startswith("style:"):
        with target.call_style(env[6:]):
            return fn(rec)
    return fn(rec)


def replay(path):
    from . import target
    rec = json.load(open(path))
    mod = importlib.import_module("mc.props." + rec["property"].lower())
    print("replaying", path)
    print(" property:", rec["property"], " check:", rec.get("key"))
    print(" expected:", json.dumps(rec.get("expected")))
    print(" observed (recorded):", json.dumps(rec.get("observed")))
    fn = getattr(mod, "replay", None)
    if fn is None:
        print(" (no replay function)")
        return 2
    now = _replay_in_env(fn, rec)
    print(" observed (now):     ", json.dumps(target.jsonable(now)))
    same = json.dumps(target.jsonable(now), sort_keys=True) == json.dumps(rec.get("observed"), sort_keys=True)
    print(" reproduces:", same)
    return 1 if same else 0


def main(argv=None):
    ap = argparse.ArgumentParser()
    ap.add_argument("prop", nargs="?")
    ap.add_argument("--tier", default=os.environ.get("VERIF_TIER") or "quick")
    ap.add_argument("--replay")
    a = ap.parse_args(argv)
    _reexec_if_needed()
    if a.replay:
        return replay(a.replay)
    if a.tier not in ("quick", "thorough"):
        a.tier = "quick"
    prop = a.prop.upper()
    try:
        seed = int(os.environ.get("VERIF_SEED", "0") or 0)
    except ValueError:
        seed = 0
    from . import target, core, evidence, findings
    t0 = target.clock.real()
    try:
        target.lib()
    except Exception:
        traceback.print_exc()
        print("HARNESS-ERROR: cannot import the library under test from", target.SRC)
        return 2
    mod = importlib.import_module("mc.props." + prop.lower())
    acc = mod.run(a.tier, seed)
    wall = target.clock.real() - t0
    known = findings.known_for(prop)
    nviol = 0
    lines = []
    OUT = evidence.out_root()
    os.makedirs(os.path.join(OUT, "replays"), exist_ok=True)
    for key in sorted(acc.viol):
        v = acc.viol[key]
        if key in known:
            lines.append("KNOWN-FINDING: property=%s %s (%s; %d occurrences this run)" %
                         (prop, known[key].get("what", key), key, v["count"]))
            continue
        nviol += 1
        rec = dict(v["records"][0])
        rec.update({"property": prop, "key": key, "occurrences": v["count"], "tier": a.tier, "seed": seed,
                    "repo": target.REPO})
        fn = getattr(mod, "replay", None)
        if fn is not None:
            try:
                r1 = target.jsonable(_replay_in_env(fn, rec))
                r2 = target.jsonable(_replay_in_env(fn, rec))
                rec["replayed_twice_identical"] = (r1 == r2)
                rec["replay_reproduces"] = (json.dumps(r1, sort_keys=True) == json.dumps(rec.get("observed"), sort_keys=True))
            except Exception as e:
                rec["replay_error"] = "%s: %s" % (type(e).__name__, e)
        digest = hashlib.sha256(json.dumps(rec, sort_keys=True).encode()).hexdigest()[:10]
        path = os.path.join("replays", "%s-%s-%s.json" % (prop, key.split("/")[-1][:40].replace(" ", "_"), digest))
        if OUT != ROOT:
            path = os.path.join(OUT, path)
        with open(os.path.join(ROOT, path), "w") as f:
            json.dump(rec, f, indent=1, sort_keys=True)
        lines.append("VIOLATION property=%s replay=%s  # %s x%d: %s" %
                     (prop, path, key, v["count"], rec.get("what", "")))
    ev = evidence.build(prop, a.tier, seed, mod.LEVEL, acc, wall, mod.RULE, mod.ASSUMPTIONS,
                        getattr(mod, "bounds", lambda t: {})(a.tier), getattr(mod, "EXHAUSTIVE", True), nviol)
    probs = evidence.selfcheck(ev)
    path = evidence.write(ev)
    c = acc.c
    print("%s tier=%s seed=%d states=%d transitions=%d traces=%d distinct=%d degenerate=%d degraded=%s caps=%s wall=%.1fs" %
          (prop, a.tier, seed, c.get("states", 0), c.get("transitions", 0), c.get("traces", 0), len(acc.distinct),
           sum(acc.degenerate.values()), acc.degraded or "-", acc.caps or "-", wall))
    for n in acc.notes:
        print("NOTE:", n)
    for p in probs:
        print("EVIDENCE-PROBLEM:", p)
    for l in lines:
        print(l)
    print("evidence:", os.path.relpath(path, ROOT) if OUT == ROOT else path)
    return 1 if nviol else 0


def _main():
    try:
        return main()
    except SystemExit:
        raise
    except BaseException:
        # a crash of the harness is never a verdict about the property
        traceback.print_exc()
        print("HARNESS-ERROR: the check could not run to completion")
        return 2


if __name__ == "__main__":
    sys.exit(_main())
