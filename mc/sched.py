"""E3 - thread-schedule explorer.

Real threading.Thread objects, one per body, serialised by a baton: a sys.settrace local
trace function fires on every 'line' event of a frame whose file lies under the library's
source directory, hands control to the scheduler and blocks on the thread's own semaphore.
Schedules are enumerated depth-first with iterative PREEMPTION BOUNDING: replay a prefix of
choices (out-of-range choice = hard error), then prefer the running thread; a switch away
from a still-enabled thread costs one preemption."""
import sys, threading, dis, types, builtins

from . import target as T

# ---------------------------------------------------------------------------
# atomic-block reduction: frames that cannot write heap state and read no mutable module-level object carry no
# scheduling points (they commute with every step of every other thread, so preempting inside them adds no behaviour)

_WRITE_OPS = {"STORE_ATTR", "STORE_SUBSCR", "STORE_GLOBAL", "DELETE_ATTR", "DELETE_SUBSCR", "DELETE_GLOBAL", "STORE_DEREF", "LOAD_DEREF",
              "LOAD_CLOSURE", "STORE_SLICE", "IMPORT_NAME", "LOAD_CLASSDEREF", "MAKE_CELL"}
_MUT_NAMES = {"append", "extend", "insert", "pop", "remove", "clear", "update", "setdefault", "add", "discard", "popitem", "sort", "reverse",
              "__setitem__", "__setattr__", "__delitem__", "__delattr__", "__dict__", "setattr", "delattr", "appendleft", "popleft", "put", "get",
              "acquire", "release", "cache_clear", "send", "throw", "globals", "vars", "exec", "eval"}
_IMMUT = (int, float, complex, bytes, str, bool, type(None), types.FunctionType, types.BuiltinFunctionType, type, types.ModuleType, frozenset,
          range, types.MethodDescriptorType, types.WrapperDescriptorType)
_atomic_cache = {}


def _immutable(v, depth=0):
    if isinstance(v, tuple):
        return depth < 4 and all(_immutable(x, depth + 1) for x in v)
    return isinstance(v, _IMMUT)


def atomic_frame(frame):
    """True if this frame's code (by static inspection of its bytecode and of the module globals it names) can neither write
    heap state nor read a mutable module-level object"""
    code = frame.f_code
    key = (code, id(frame.f_globals))
    r = _atomic_cache.get(key)
    if r is None:
        r = _atomic_code(code, frame.f_globals)
        _atomic_cache[key] = r
    return r


def _atomic_code(code, globs):
    if code.co_flags & 0x2A0 or code.co_freevars or code.co_cellvars:      # generator / coroutine / async generator, closures
        return False
    for ins in dis.get_instructions(code):
        if ins.opname in _WRITE_OPS:
            return False
        if ins.opname in ("LOAD_ATTR", "LOAD_METHOD") and ins.argval in _MUT_NAMES:
            return False
        if ins.opname in ("LOAD_GLOBAL", "LOAD_NAME"):
            n = ins.argval
            if n in _MUT_NAMES:
                return False
            if n in globs:
                if not _immutable(globs[n]):
                    return False
            elif not hasattr(builtins, n):
                return False
    return True


class Divergence(Exception):
    pass


# ---------------------------------------------------------------------------
# cooperative locks: a real threading.Lock inside the library would block a thread WITHOUT handing the baton back (the explorer
# would hang).  target.lib() replaces every lock object it finds in the library's modules, and the `threading` name those modules
# see, by these: acquire() on a held lock marks the thread as blocked and yields to the scheduler; blocked threads are not enabled;
# "nobody enabled but somebody not done" is a deadlock, reported as the outcome of the blocked threads.

_current = {}      # thread ident -> (Run, tid)


class Deadlock(Exception):
    pass


class CoopLock:
    reentrant = False

    def __init__(self):
        self.owner = None
        self.depth = 0

    def _me(self):
        return _current.get(threading.get_ident(), (None, threading.get_ident()))

    def locked(self):
        return self.depth > 0

    def acquire(self, blocking=True, timeout=-1):
        run, me = self._me()
        while True:
            if self.depth == 0:
                self.owner, self.depth = (run, me), 1
                return True
            if self.reentrant and self.owner == (run, me):
                self.depth += 1
                return True
            if not blocking or (timeout is not None and timeout >= 0):
                return False          # a timed wait: time does not pass under the scheduler; answer as after the timeout
            if run is None:
                raise Deadlock("acquire() of a held lock outside the scheduler (self-deadlock)")
            run.blocked[me] = self
            run.main.release()
            run.sems[me].acquire()
            run.blocked[me] = None
            if run.abort:
                raise Deadlock("deadlock")

    def release(self):
        if self.depth == 0:
            raise RuntimeError("release unlocked lock")
        self.depth -= 1
        if self.depth == 0:
            self.owner = None

    __enter__ = acquire

    def __exit__(self, *a):
        self.release()


class CoopRLock(CoopLock):
    reentrant = True


class Run:
    def __init__(self, bodies, prefix, libdir, opcodes=False, reduce=False):
        self.blocked = [None] * len(bodies)
        self.abort = False
        self.opcodes = opcodes
        self.reduce = reduce
        self.n = len(bodies)
        self.bodies = bodies
        self.prefix = list(prefix)
        self.libdir = libdir
        self.sems = [threading.Semaphore(0) for _ in bodies]
        self.main = threading.Semaphore(0)
        self.done = [False] * self.n
        self.results = [None] * self.n
        self.choices = []
        self.points = []   # (number of enabled threads, running still enabled)

    def _tracer(self, tid):
        libdir = self.libdir

        want = "opcode" if self.opcodes else "line"

        def loc(frame, event, arg):
            if event == want:
                self.main.release()
                self.sems[tid].acquire()
            return loc

        def glob(frame, event, arg):
            if frame.f_code.co_filename.startswith(libdir):
                if self.reduce and atomic_frame(frame):
                    return None
                if self.opcodes:
                    frame.f_trace_opcodes = True
                    frame.f_trace_lines = False
                return loc
            return None
        return glob

    def run(self):
        ths = []
        for i, b in enumerate(self.bodies):
            def body(i=i, b=b):
                self.sems[i].acquire()
                _current[threading.get_ident()] = (self, i)
                sys.settrace(self._tracer(i))
                try:
                    self.results[i] = ("ok", b())
                except BaseException as e:
                    self.results[i] = ("exc", type(e).__name__)
                finally:
                    sys.settrace(None)
                    _current.pop(threading.get_ident(), None)
                    self.done[i] = True
                    self.main.release()
            t = threading.Thread(target=body, daemon=True)
            t.start()
            ths.append(t)
        running, step = 0, 0
        while True:
            enabled = [i for i in range(self.n) if not self.done[i] and not (self.blocked[i] is not None and self.blocked[i].depth > 0
                                                                            and self.blocked[i].owner != (self, i))]
            if not enabled:
                stuck = [i for i in range(self.n) if not self.done[i]]
                if not stuck:
                    break
                # deadlock: wake the blocked threads one at a time; their acquire() raises Deadlock, which becomes their outcome
                self.abort = True
                for i in stuck:
                    self.sems[i].release()
                    self.main.acquire()
                    while not self.done[i]:          # the thread may pass further scheduling points while unwinding
                        self.sems[i].release()
                        self.main.acquire()
                break
            order = ([running] if running in enabled else []) + [i for i in enabled if i != running]
            c = self.prefix[step] if step < len(self.prefix) else 0
            if c >= len(order):
                raise Divergence("schedule prefix choice %d out of range at step %d" % (c, step))
            self.points.append((len(order), running in enabled))
            self.choices.append(c)
            running = order[c]
            step += 1
            self.sems[running].release()
            self.main.acquire()
            if step > 2_000_000:
                raise Divergence("horizon exceeded")
        for t in ths:
            t.join()
        return self.results


def warm_opcodes(bodies, libdir):
    """CPython 3.12 instruments a code object for per-opcode events lazily: the first frames executed after
    f_trace_opcodes is switched on still run uninstrumented.  One throw-away traced execution of every body makes all later
    executions deliver opcode events from their first instruction.  Returns the number of opcode events seen per body
    in a second traced execution (used as a self-check)."""
    counts = []
    for rnd in range(2):
        counts = []
        for b in bodies:
            c = [0]

            def loc(frame, event, arg, c=c):
                if event == "opcode":
                    c[0] += 1
                return loc

            def glob(frame, event, arg):
                if frame.f_code.co_filename.startswith(libdir):
                    frame.f_trace_opcodes = True
                    frame.f_trace_lines = False
                    return loc
                return None

            def run(b=b):
                sys.settrace(glob)
                try:
                    b()
                except BaseException:
                    pass
                finally:
                    sys.settrace(None)
            t = threading.Thread(target=run)
            t.start()
            t.join()
            counts.append(c[0])
    return counts


def alternatives(run, start, bound):
    """prefixes to explore below this execution: one per (point >= start, alternative) within the preemption bound"""
    out = []
    pre = 0
    costs = []
    for c, (n, re) in zip(run.choices, run.points):
        costs.append(pre)
        if re and c != 0:
            pre += 1
    for i in range(start, len(run.points)):
        n, re = run.points[i]
        cost = costs[i] + (1 if re else 0)
        if cost > bound:
            continue
        for alt in range(1, n):
            out.append(run.choices[:i] + [alt])
    return out


def explore(make_bodies, bound, libdir, on_result, prefix=(), stop=None, opcodes=False, reduce=False):
    """all schedules below `prefix` with at most `bound` preemptions; on_result(results, run) per execution"""
    stack = [list(prefix)]
    n = 0
    while stack:
        p = stack.pop()
        r = Run(make_bodies(), p, libdir, opcodes, reduce)
        res = r.run()
        n += 1
        on_result(res, r)
        stack.extend(alternatives(r, len(p), bound))
        if stop is not None and stop():
            break
    return n
