"""C09 - restoring under the wrong role or parameters is always detected.

All 9 (saving class, restoring class) x all ordered pairs of a parameter menu x (pw, ids)
settings through the real from_serialized(); oracle = decision table from the statement plus
the reference fingerprint."""
import copy, itertools, json
from .. import target as T, core
from ..core import Acc
from ..ref import spake2 as RS
from . import common as C

LEVEL = "model_checking"
RULE = ("state saved by class c1 under parameter set P1 is offered to class c2 under P2, for all 3x3 (c1,c2), all ordered pairs (P1,P2) of the "
        "menu {Ed25519, 1024, 2048, 3072, Ed25519 with M', N', S', M<->N, 1024 with S', T23, T29, T23 with M'/N'/S', toy curve E109}, 3 (pw, ids) "
        "settings, 2 scalars. oracle: role differs -> must raise (WrongSideSerialized or, when the parameters differ too, WrongGroupError, for "
        "A/B state; any exception for Symmetric state); role equal and reference fingerprint of the elements that role uses differs -> "
        "WrongGroupError; role and fingerprint equal -> may return an instance, which must then reproduce the original message (re-serialised "
        "state JSON-equal) and the reference keys. states = (c1,P1,c2,P2,cfg) combinations; transitions = from_serialized/finish/serialize "
        "calls. distinct_nontrivial = distinct (c1,c2,param relation,outcome) classes")
ASSUMPTIONS = ["reference fingerprint recipe mc/ref/spake2.py RefParams.fingerprint", "exception classes matched by name"]
EXHAUSTIVE = True
CFGS = [(b"password", 1), (b"", 0), (b"\x00\xff", 4)]


def bounds(tier):
    return {"menu": menu_names(tier), "role_pairs": 9, "configs": len(CFGS)}


def menu_names(tier):
    m = ["ParamsEd25519", "Params1024", "Params2048", "Params3072", "ParamsEd25519:M'", "ParamsEd25519:N'", "ParamsEd25519:S'",
         "ParamsEd25519:M<->N", "Params1024:S'", "Params1024:MN|", "T23", "T29", "T23:M'", "T23:N'", "T23:S'", "T23:MN|", "E109"]
    if tier != "quick":
        m += ["Params2048:N'", "Params3072:M'", "T29:S'", "E109:M'", "E37", "T11", "T31", "ParamsEd25519:MN|", "T29:MN|"]
    return m


_V = {}


def variant(name):
    if name in _V:
        return _V[name]
    if ":" not in name:
        inst = T.get(name)
    else:
        bname, v = name.split(":")
        base = T.get(bname)
        s = base.rp.seeds
        if v == "M'":
            inst = T.reseeded(base, M=T.alt_seed(base, s[0]))
        elif v == "N'":
            inst = T.reseeded(base, N=T.alt_seed(base, s[1]))
        elif v == "S'":
            inst = T.reseeded(base, S=T.alt_seed(base, s[2]))
        elif v == "MN|":
            # same concatenation M_seed + N_seed, boundary moved: both elements differ although the joined seeds are equal
            inst = None
            joined = s[0] + s[1]
            for k in list(range(len(joined), -1, -1)):
                m_, n_ = joined[:k], joined[k:]
                if (m_, n_) == (s[0], s[1]):
                    continue
                try:
                    em, en = base.ref.arbitrary(m_), base.ref.arbitrary(n_)
                except Exception:
                    continue
                if em != base.rp.M and en != base.rp.N:
                    inst = T.reseeded(base, M=m_, N=n_)
                    break
            if inst is None:
                raise T.HarnessError("no boundary-shifted seed pair is well-defined on " + bname)
        else:
            inst = T.reseeded(base, M=s[1], N=s[0])
        inst.name = name
    _V[name] = inst
    return inst


def relation(c1, i1, c2, i2):
    """what the statement says must happen"""
    same_role = c1 == c2
    fp_equal = i1.rp.fingerprint(c2) == i2.rp.fingerprint(c2) if same_role else None
    return same_role, fp_equal


def _task(task):
    n1, c1, names2 = task
    acc = Acc()
    try:
        i1 = variant(n1)
    except Exception as e:
        acc.degrade("%s unavailable: %s: %s" % (n1, type(e).__name__, e))
        return acc
    R1, rp1 = i1.ref, i1.rp
    for pw, k in CFGS:
        ids = C.ids_for(c1, k)
        for x in (0, 3 % i1.q):
            s = i1.new(c1, pw, ids, x)
            m = T.observe(s.start)
            blob = T.observe(s.serialize)
            if m[0] != "ok" or blob[0] != "ok":
                acc.note("cannot save state for %s %s (judged by C03/C08)" % (n1, c1))
                continue
            w = R1.pw_scalar(pw)
            xo = T.read_scalar(i1, s)
            xo = x if xo is None else xo
            valid = C.inbound_menu(i1, c1, w, xo, own=m[1])[0][1]
            refkey = RS.finish(rp1, c1, pw, w, ids, xo, valid)
            for n2 in names2:
                try:
                    i2 = variant(n2)
                except Exception as e:
                    acc.degrade("%s unavailable: %s: %s" % (n2, type(e).__name__, e))
                    continue
                for c2 in "ABS":
                    got = T.observe(i2.restore, c2, blob[1])
                    acc.n(states=1, transitions=1)
                    same_role, fp_equal = relation(c1, i1, c2, i2)
                    same_params = n1 == n2
                    rel = "same-params" if same_params else ("fp-equal" if fp_equal else "params-differ")
                    desc = {"save": {"inst": i1.desc, "side": c1, "pw": pw, "ids": list(ids), "x": x}, "restore": {"inst": i2.desc, "side": c2}}
                    oc = "instance" if got[0] == "ok" else got[1]
                    acc.seen((c1, c2, rel, oc))
                    F = "%s->%s" % (c1, c2)
                    if not same_role:
                        if got[0] == "ok":
                            acc.violation("C09/%s/wrong-role-accepted" % F, {"what": "state saved by role %s is accepted by role %s" % (c1, c2),
                                          "replay": desc, "expected": "raises", "observed": ("ok", "instance")})
                        elif c1 in "AB":
                            allowed = {"WrongSideSerialized"} | (set() if same_params else {"WrongGroupError"})
                            if got[1] not in allowed:
                                acc.violation("C09/%s/wrong-role-wrong-exception" % F, {"what": "A/B state offered to another role does not raise WrongSideSerialized",
                                              "replay": desc, "expected": sorted(allowed), "observed": got})
                        continue
                    # same role
                    if fp_equal is False:
                        if got != ("exc", "WrongGroupError"):
                            acc.violation("C09/%s/param-mismatch-%s" % (F, "accepted" if got[0] == "ok" else "wrong-exception"),
                                          {"what": "state saved under %s restored under %s (fingerprint of the elements role %s uses differs): no WrongGroupError" % (n1, n2, c1),
                                           "replay": desc, "expected": ("exc", "WrongGroupError"), "observed": got if got[0] != "ok" else ("ok", "instance")})
                        continue
                    if not same_params and i1.ref is not i2.ref and getattr(i1.ref, "_R", i1.ref) is not getattr(i2.ref, "_R", i2.ref):
                        acc.degenerate["equal-fingerprints-different-groups"] += 1
                        continue
                    # fingerprints equal on the same group: may refuse (stricter is fine) or return the same session
                    if got[0] != "ok":
                        if same_params:
                            acc.violation("C09/%s/own-state-refused" % F, {"what": "from_serialized() refuses state saved by the same role under the same parameters",
                                          "replay": desc, "expected": "instance", "observed": got})
                        continue
                    r = got[1]
                    again = T.observe(r.serialize)
                    acc.n(transitions=2)
                    if again[0] != "ok" or json.loads(again[1]) != json.loads(blob[1]):
                        acc.violation("C09/%s/returned-instance-differs" % F, {"what": "the returned instance does not describe the original session (re-serialised state differs)",
                                      "replay": desc, "expected": blob[1], "observed": again})
                    k = T.observe(r.finish, valid)
                    if refkey[0] == "key" and k != ("ok", refkey[1]):
                        acc.violation("C09/%s/returned-instance-key" % F, {"what": "the returned instance does not derive the original session's key",
                                      "replay": dict(desc, delivered=valid), "expected": refkey[1], "observed": k})
            acc.n(traces=1)
    acc.sample({"saved_under": n1, "role": c1, "offered_to": [[n, "ABS"] for n in names2[:3]]})
    return acc


def _soak_task(task):
    """thousands of distinct parameter sets over one group in one process: state saved under the k-th is offered to the first one
    (must raise WrongGroupError every time), and the first one keeps accepting its own state"""
    name, n = task
    acc = Acc()
    base, why = T.try_get(name)
    if base is None:
        return acc
    L = T.lib()
    home = base
    s0 = home.new("A", b"pw", (b"", b""), 3)
    s0.start()
    blob0 = s0.serialize()
    for k in range(n):
        seed = b"soak-%d" % k
        try:
            e = base.ref.arbitrary(seed)
        except Exception:
            continue
        if e == base.rp.M:
            continue
        P = L.params._Params(base.group, M=seed, N=base.rp.seeds[1], S=base.rp.seeds[2])
        s = L.A(b"pw", params=P, entropy_f=base.entropy(3))
        s.start()
        blob = s.serialize()
        got = T.observe(L.A.from_serialized, blob, params=home.params)
        acc.n(states=1, transitions=2)
        if got != ("exc", "WrongGroupError"):
            acc.violation("C09/A->A/param-mismatch-accepted-after-many-parameter-sets",
                          {"what": "after %d other parameter sets were used in the process, state saved under M-seed %r is accepted under the original set" % (k, seed),
                           "replay": {"fn": "soak", "name": name, "k": k}, "expected": ("exc", "WrongGroupError"), "observed": got if got[0] != "ok" else ("ok", "instance")})
            break
        if k % 257 == 0:
            own = T.observe(L.A.from_serialized, blob0, params=home.params)
            if own[0] != "ok":
                acc.violation("C09/A->A/own-state-refused", {"what": "own state refused after %d other parameter sets" % k,
                              "replay": {"fn": "soak", "name": name, "k": k}, "expected": "instance", "observed": own})
                break
    acc.seen((name, "soak", n))
    acc.n(traces=1)
    return acc


def _default_path(acc):
    L = T.lib()
    for name in ("Params1024", "ParamsEd25519"):
        inst, why = T.try_get(name)
        if inst is None:
            continue
        for c in "ABS":
            s = inst.new(c, b"pw", C.ids_for(c, 1), 5)
            if T.observe(s.start)[0] != "ok":
                continue
            blob = T.observe(s.serialize)
            if blob[0] != "ok":
                continue
            got = T.observe(L.cls[c].from_serialized, blob[1])   # no params= : DefaultParams
            acc.n(states=1, transitions=1)
            dflt = L.sp.DefaultParams is inst.params
            if dflt and got[0] != "ok":
                acc.violation("C09/default-path/own-state-refused", {"what": "from_serialized(data) refuses state of the default parameter set",
                              "replay": {"default_path": True}, "expected": "instance", "observed": got})
            if not dflt and got != ("exc", "WrongGroupError"):
                acc.violation("C09/default-path/param-mismatch", {"what": "state of %s restored without params= (default set): no WrongGroupError" % name,
                              "replay": {"default_path": True}, "expected": ("exc", "WrongGroupError"), "observed": got if got[0] != "ok" else ("ok", "instance")})


def run(tier, seed):
    acc = Acc()
    names = menu_names(tier)
    # build all variants before forking
    for n in names:
        try:
            variant(n)
        except Exception as e:
            if n.endswith("MN|") and isinstance(e, T.HarnessError):
                acc.note("%s: %s" % (n, e))
            else:
                acc.degrade("%s unavailable: %s: %s" % (n, type(e).__name__, e))
    names = [n for n in names if n in _V]
    tasks = []
    heavy = [n for n in names if not variant(n).small]
    light = [n for n in names if variant(n).small]
    for n1 in names:
        for c1 in "ABS":
            for ch in core.chunks(heavy, 3):
                tasks.append((n1, c1, ch))
            tasks.append((n1, c1, light))
    core.pmerge(_task, tasks, acc)
    core.pmerge(_soak_task, [("T23", 2600 if tier == "quick" else 9000), ("T29", 2600 if tier == "quick" else 70000)], acc)
    _default_path(acc)
    return acc


def replay(rec):
    r = T.unjson(rec["replay"])
    if r.get("default_path"):
        return "default-path run; see observed"
    if r.get("fn") == "soak":
        a = Acc()
        a.merge(_soak_task((r["name"], r["k"] + 1)))
        return sorted(a.viol)
    sv, rs = r["save"], r["restore"]
    i1, i2 = T.build_inst(sv["inst"]), T.build_inst(rs["inst"])
    s = i1.new(sv["side"], sv["pw"], tuple(sv["ids"]), sv["x"])
    s.start()
    got = T.observe(i2.restore, rs["side"], s.serialize())
    if "delivered" in r and got[0] == "ok":
        return T.observe(got[1].finish, r["delivered"])
    return got if got[0] != "ok" else ("ok", "instance")
