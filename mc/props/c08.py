"""C08 - persist/restore is transparent at every point between start and finish.

Crash-point enumeration: after start(), every word of length <= 3 over {serialize,
crash+restore} (15 placements), then finish(m) for every m of an inbound menu; differential
oracle: the restored instance behaves exactly like a never-crashed twin built from the same
entropy script.  serialize() itself: deterministic, pure, entropy-free, printable ASCII JSON."""
import copy, json, itertools
from .. import target as T, core
from ..core import Acc
from ..ref import spake2 as RS
from . import common as C

LEVEL = "model_checking"
RULE = ("per session (instance, class, pw, ids, x): all words over {s = serialize, r = crash + from_serialized(serialize())} of length 0..3 "
        "(15 crash/restore placements) executed after start(), then finish(m) for each m of the inbound menu {valid, every subgroup element "
        "(small groups), own side, unknown side, reflected own message, undecodable, identity, empty, over-long, truncated}; oracle: same key "
        "bytes / same exception class as the never-crashed twin; re-serialisation JSON-equal to the original; serialize() twice gives "
        "identical bytes, leaves the instance __dict__ unchanged, draws no entropy, output is printable-ASCII JSON. small groups: all x; "
        "shipped: edge classes. states = distinct (session, word) crash histories; transitions = library calls compared. "
        "distinct_nontrivial = distinct (instance family, class, word, inbound kind, outcome) combinations with at least one restore")
ASSUMPTIONS = ["a crash leaves only the serialize() bytes; the restored instance is built by from_serialized(blob, params)",
               "on shipped groups the post-word instance is cloned with copy.copy per inbound message instead of re-running the word"]
EXHAUSTIVE = True
WORDS = [""] + ["".join(w) for n in (1, 2, 3) for w in itertools.product("sr", repeat=n)]
CONFIGS = [(b"", 0), (b"a", 1), (b"\x00", 2), (b"\xff\xfe", 3), (b"a\x00b", 4), (b"p" * 65, 5),
           (b"pw\n\n", 1), (b"  pw  ", 2), (b"\r\n\r\n", 3), (b"PW\x00\x00", 4)]


def bounds(tier):
    return {"words": WORDS, "small": ["T11", "T23", "T29", "E37"] if tier == "quick" else ["T11", "T23", "T29", "T31", "T43", "T59", "E37", "E53", "E109"],
            "configs": len(CONFIGS)}


def fam(inst):
    return inst.kind if inst.small else inst.name


def printable_json(blob):
    if not isinstance(blob, bytes):
        return "not bytes"
    if any(not (32 <= c < 127) for c in blob):
        return "non-printable byte"
    try:
        d = json.loads(blob.decode("ascii"))
    except Exception as e:
        return "not JSON: %s" % e
    if not isinstance(d, dict):
        return "not an object"
    return None


def run_word(inst, side, pw, ids, x, word, acc, desc, blob0):
    """start, then the word; returns the resulting instance (or None) - checks serialize() purity on the way"""
    F = fam(inst)
    ent = inst.entropy(x)
    cur = inst.new(side, pw, ids, entropy=ent)
    m = T.observe(cur.start)
    acc.n(transitions=1)
    if m[0] != "ok":
        return None, m
    ncalls = len(ent.calls)
    for i, op in enumerate(word):
        T.clock.advance(3600)      # time passes between start, every serialize / crash+restore and finish
        before = T.canon_instance(cur)
        b1 = T.observe(cur.serialize)
        b2 = T.observe(cur.serialize)
        acc.n(transitions=2)
        rdesc = dict(desc, word=word, step=i)
        if b1[0] != "ok":
            acc.violation("C08/%s/%s/serialize-raises" % (F, side), {"what": "serialize() raises on a started instance", "replay": rdesc,
                          "expected": "state bytes", "observed": b1})
            return None, m
        if b1 != b2:
            acc.violation("C08/%s/%s/serialize-not-deterministic" % (F, side), {"what": "two serialize() calls return different data",
                          "replay": rdesc, "expected": b1, "observed": b2})
        if T.canon_instance(cur) != before:
            acc.violation("C08/%s/%s/serialize-mutates" % (F, side), {"what": "serialize() changes the instance",
                          "replay": rdesc, "expected": "unchanged __dict__", "observed": "changed"})
        if len(ent.calls) != ncalls:
            acc.violation("C08/%s/%s/serialize-draws-entropy" % (F, side), {"what": "serialize()/from_serialized() consumed entropy",
                          "replay": rdesc, "expected": ncalls, "observed": len(ent.calls)})
        pj = printable_json(b1[1])
        if pj:
            acc.violation("C08/%s/%s/serialize-not-printable-json" % (F, side), {"what": "serialize() output: " + pj, "replay": rdesc,
                          "expected": "printable ASCII JSON object", "observed": b1})
            return None, m
        if blob0 is not None and json.loads(b1[1]) != json.loads(blob0):
            acc.violation("C08/%s/%s/reserialize-differs" % (F, side), {"what": "state serialised after %r differs from the original state" % word[:i],
                          "replay": rdesc, "expected": blob0, "observed": b1})
        if op == "r":
            r = T.observe(inst.restore, side, b1[1])
            acc.n(transitions=1)
            if r[0] != "ok" and T.style_relaxed():
                return None, m                      # the library may refuse a bytes-like carrier of the blob
            if r[0] != "ok":
                acc.violation("C08/%s/%s/restore-raises" % (F, side), {"what": "from_serialized() refuses the instance's own state",
                              "replay": rdesc, "expected": "instance", "observed": r})
                return None, m
            cur = r[1]
    return cur, m


def check_session(inst, side, pw, ids, x, acc, all_elements, clone):
    R = inst.ref
    F = fam(inst)
    w = R.pw_scalar(pw)
    xo, own = C.session_facts(inst, side, pw, ids, x)
    menu = C.inbound_menu(inst, side, w, xo, all_elements, own=own)
    desc = {"inst": inst.desc, "side": side, "pw": pw, "ids": list(ids), "x": x}
    # never-crashed twin
    twin = {}
    t0 = inst.new(side, pw, ids, x)
    m0 = T.observe(t0.start)
    if m0[0] != "ok":
        acc.note("start() raises for %s %s x=%s (judged by C03)" % (inst.name, side, x))
        return
    blob0 = T.observe(t0.serialize)
    blob0 = blob0[1] if blob0[0] == "ok" else None
    for kind, d in menu:
        t = T.snapshot(t0) if clone else inst.new(side, pw, ids, x)
        if not clone:
            t.start()
        twin[d] = (T.observe(t.finish, d), after_finish(t))
        acc.n(transitions=2)
        if not twin[d][1][1]:
            acc.violation("C08/%s/%s/serialize-mutates" % (F, side), {"what": "serialize() after finish(%s) changes the instance" % kind,
                          "replay": dict(desc, word="", delivered=d), "expected": "unchanged __dict__", "observed": "changed"})
    for word in WORDS:
        acc.n(states=1)
        if not clone:
            for kind, d in menu:
                cur, m = run_word(inst, side, pw, ids, x, word, acc, desc, blob0)
                if cur is None:
                    break
                if m != m0:
                    acc.violation("C08/%s/%s/start-not-deterministic" % (F, side), {"what": "same constructor arguments and entropy give different messages",
                                  "replay": dict(desc, word=""), "expected": m0, "observed": m})
                got = (T.observe(cur.finish, d), after_finish(cur))
                acc.n(transitions=2, traces=1)
                judge(F, side, word, kind, d, twin[d], got, desc, acc)
        else:
            cur, m = run_word(inst, side, pw, ids, x, word, acc, desc, blob0)
            if cur is None:
                continue
            for kind, d in menu:
                c2 = T.snapshot(cur)
                got = (T.observe(c2.finish, d), after_finish(c2))
                acc.n(transitions=2, traces=1)
                judge(F, side, word, kind, d, twin[d], got, desc, acc)


def after_finish(t):
    """serialize() on an instance whose finish() was entered: outcome + whether it changed the instance"""
    before = T.canon_instance(t)
    b = T.observe(t.serialize)
    return (b, T.canon_instance(t) == before)


def judge(F, side, word, kind, d, want, got, desc, acc):
    if "r" in word:
        acc.seen((F, side, word, kind, got[0][0] if got[0][0] == "ok" else got[0][1]))
    if got != want:
        acc.violation("C08/%s/%s/%s/%s" % (F, side, "restored" if "r" in word else "serialized", kind),
                      {"what": "after the word %r (s=serialize, r=crash+restore) finish(%s) behaves differently from the never-crashed twin" % (word, kind),
                       "replay": dict(desc, word=word, delivered=d), "expected": want, "observed": got})


def _boundary_task(task):
    """passwords and identities on length boundaries with distinguished trailing bytes, smallest group, every scalar"""
    name, side, part, nparts = task
    acc = Acc()
    inst, why = T.try_get(name)
    if inst is None:
        acc.degrade("%s unavailable: %s" % (name, why))
        return acc
    B = C.boundary_strings()
    mine = B[part::nparts]
    for j, s in enumerate(mine):
        for x in range(inst.q):
            # as password (fixed ids) and as identity (fixed password)
            check_session(inst, side, s, C.ids_for(side, 1), x, acc, all_elements=False, clone=False)
            ids = (s,) if side == "S" else ((s, b"b") if (j + x) % 2 else (b"a", s))
            check_session(inst, side, b"pw", ids, x, acc, all_elements=False, clone=False)
            acc.inst(name, boundary_sessions=2)
    return acc


def _small_task(task):
    name, side, xs, cfgs = task
    acc = Acc()
    inst, why = T.try_get(name)
    if inst is None:
        acc.degrade("%s unavailable: %s" % (name, why))
        return acc
    for x in xs:
        for pw, k in cfgs:
            ids = C.ids_for(side, k)
            check_session(inst, side, pw, ids, x, acc, all_elements=(k < 2), clone=False)
            acc.inst(name, sessions=1)
    acc.sample({"inst": name, "side": side, "x": xs[-1], "pw": cfgs[-1][0], "ids": list(C.ids_for(side, cfgs[-1][1])), "words": WORDS[-3:]})
    return acc


def _shipped_task(task):
    name, side, x, cfg = task
    acc = Acc()
    inst, why = T.try_get(name)
    if inst is None:
        acc.degrade("%s unavailable: %s" % (name, why))
        return acc
    pw, k = cfg
    check_session(inst, side, pw, C.ids_for(side, k), x, acc, all_elements=False, clone=True)
    acc.inst(name, sessions=1)
    return acc


def _default_path(acc):
    L = T.lib()
    inst, why = T.try_get("ParamsEd25519")
    if inst is None or L.sp.DefaultParams is not getattr(L.pall, "ParamsEd25519", None):
        return
    for side in "ABS":
        s = L.S(b"pw", idSymmetric=b"i") if side == "S" else L.cls[side](b"pw", idA=b"x", idB=b"y")
        m = T.observe(s.start)
        if m[0] != "ok":
            continue
        blob = T.observe(s.serialize)
        if blob[0] != "ok":
            continue
        w = inst.ref.pw_scalar(b"pw")
        x = T.read_scalar(inst, s)
        if x is None:
            continue
        for kind, d in C.inbound_menu(inst, side, w, x):
            r = T.observe(lambda: L.cls[side].from_serialized(blob[1]))
            if r[0] != "ok":
                acc.violation("C08/default-path/%s/restore-raises" % side, {"what": "from_serialized(data) without params= refuses a default-parameter state",
                              "replay": {"default_path": True}, "expected": "instance", "observed": r})
                break
            a, b = T.observe(T.snapshot(s).finish, d), T.observe(r[1].finish, d)
            acc.n(transitions=3, traces=1)
            if a != b:
                acc.violation("C08/default-path/%s/%s" % (side, kind), {"what": "default-parameter session: restored instance differs from the original",
                              "replay": {"default_path": True}, "expected": a, "observed": b})


def run(tier, seed):
    acc = Acc()
    quick = tier == "quick"
    b = bounds(tier)
    tasks = []
    for name in b["small"]:
        inst, why = T.try_get(name)
        if inst is None:
            acc.degrade("%s unavailable: %s" % (name, why))
            continue
        for side in "ABS":
            for x in range(inst.q):
                cfgs = CONFIGS if (inst.kind == "int" and inst.q <= 11) or not quick else CONFIGS[:1] + CONFIGS[3:5] + CONFIGS[6:8]
                tasks.append(("small", (name, side, [x], cfgs)))
    for name in T.SHIPPED:
        inst, why = T.try_get(name)
        if inst is None:
            acc.degrade("%s unavailable: %s" % (name, why))
            continue
        xs = C.edge_scalars(inst.q, seed, 1)
        xs = [xs[0], xs[4]] if quick else xs[:6]
        for side in "ABS":
            for i, x in enumerate(xs):
                for cfg in ([CONFIGS[(i + "ABS".index(side)) % 6], CONFIGS[6 + (i + "ABS".index(side)) % 4]] if quick else CONFIGS):
                    tasks.append(("shipped", (name, side, x, cfg)))
    nb = 6 if quick else 12
    for name in (["T11"] if quick else ["T11", "T23", "E37"]):
        for side in "ABS":
            for part in range(nb):
                tasks.append(("boundary", (name, side, part, nb)))
    for name in (["ParamsEd25519"] if quick else T.SHIPPED):
        for side in "ABS":
            tasks.append(("shipped-boundary", (name, side)))
    # application subclasses (one that adds state, one that extends start()/finish()): the restored object must behave like the
    # never-crashed object of the SAME class
    styled = []
    for st in ("subclass-init", "subclass-extends", "blob-bytearray"):
        for name in (("T11",) if quick else ("T11", "T23", "E37")):
            if T.try_get(name)[0] is None:
                continue
            for side in "ABS":
                styled.append(("style", st, ("small", (name, side, list(range(T.hint(name).q)), CONFIGS[:1] + CONFIGS[3:4]))))
        for side in "ABS":
            styled.append(("style", st, ("shipped", ("ParamsEd25519", side, 5, CONFIGS[1]))))
    tasks.sort(key=lambda t: -(T.hint(t[1][0]).ref.esize * (30 if t[0].startswith("shipped") else T.hint(t[1][0]).q)))
    core.pmerge(_dispatch, tasks + styled, acc)
    _default_path(acc)
    return acc


def _shipped_boundary_task(task):
    name, side = task
    acc = Acc()
    inst, why = T.try_get(name)
    if inst is None:
        return acc
    for j, s in enumerate([b for b in C.boundary_strings() if len(b) in (32, 64)][::3]):
        check_session(inst, side, s, ((s[:32],) if side == "S" else (s[:32], b"")), 3 + j, acc, all_elements=False, clone=True)
    return acc


def _dispatch(t):
    if t[0] == "style":
        with T.call_style(t[1]):
            a = _dispatch(t[2])
        return a.tag_env("style:" + t[1])
    return {"small": _small_task, "shipped": _shipped_task, "boundary": _boundary_task, "shipped-boundary": _shipped_boundary_task}[t[0]](t[1])


def replay(rec):
    r = T.unjson(rec["replay"])
    if r.get("default_path"):
        return "default-path run (os.urandom); see observed"
    inst = T.build_inst(r["inst"])
    acc = Acc()
    cur, m = run_word(inst, r["side"], r["pw"], tuple(r["ids"]), r["x"], r.get("word", ""), acc, {}, None)
    if "delivered" not in r:
        return {"violations_on_the_way": sorted(acc.viol)}
    if cur is None:
        return "word could not be executed"
    return (T.observe(cur.finish, r["delivered"]), after_finish(cur))
