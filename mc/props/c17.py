"""C17 - the transcript hash binds every field and is order-independent when symmetric.
All 6-tuples / 5-tuples over a 7-string alphabet through the two real finalize functions,
oracle: the formula via hashlib; plus the fixed-width injectivity table."""
import hashlib, itertools
from .. import target as T, core
from ..core import Acc

LEVEL = "model_checking"
RULE = ("every tuple (idA,idB,X,Y,K,pw) in ALPHA^6 and (idS,m1,m2,K,pw) in ALPHA^5, ALPHA = {'',a,b,aa,ab,ba,bb}, plus byte pairs "
        "exposing signed/length-first comparison, through finalize_SPAKE2 / finalize_SPAKE2_symmetric; fixed-width tables: all tuples "
        "with X,Y,K of width 1 over 3 byte values (and width 2); both functions called from 2-3 threads at once, every schedule with at most 2 "
        "(thorough: 4) preemptions at line granularity and 1 (2) at opcode granularity. distinct_nontrivial = distinct keys returned")
ASSUMPTIONS = ["hashlib.sha256 is SHA-256"]
EXHAUSTIVE = True
ALPHA = [b"", b"a", b"b", b"aa", b"ab", b"ba", b"bb"]
ALPHA_THOROUGH = ALPHA + [b"\x00", b"\xff", b"a\x00"]
EXTRA = [b"\x7f", b"\x80", b"\x00", b"\xff", b"a\x00", b"ab", b"a", b"", b"\x00\x00"]


def bounds(tier):
    return {"alphabet": [a.hex() for a in (ALPHA if tier == "quick" else ALPHA_THOROUGH)], "tuple_arity": [6, 5]}


def sha(b):
    return hashlib.sha256(b).digest()


def ref_asym(idA, idB, X, Y, K, pw):
    return sha(sha(pw) + sha(idA) + sha(idB) + X + Y + K)


def ref_sym(idS, m1, m2, K, pw):
    lo, hi = (m1, m2) if m1 <= m2 else (m2, m1)
    return sha(sha(pw) + sha(idS) + lo + hi + K)


def _asym_task(first):
    sp = T.lib().sp
    acc = Acc()
    f = sp.finalize_SPAKE2
    keys = set()
    for rest in itertools.product(ALPHA, repeat=4):
        t = tuple(first) + rest
        got = T.observe(f, *t)
        exp = ref_asym(*t)
        if got != ("ok", exp):
            acc.violation("C17/asymmetric-formula", {"what": "finalize_SPAKE2 differs from SHA256(SHA256(pw)|SHA256(idA)|SHA256(idB)|X|Y|K)",
                          "replay": {"fn": "asym", "args": list(t)}, "expected": exp, "observed": got})
        keys.add(got[1] if got[0] == "ok" else None)
    n = len(ALPHA) ** 4
    acc.n(states=n, transitions=n, traces=n)
    for k in keys:
        acc.seen(core.h8(k))
    if first == (ALPHA[-1], ALPHA[-1]):
        acc.sample({"call": "finalize_SPAKE2", "args": list(t), "key": exp})
    return acc


def _sym_task(first):
    sp = T.lib().sp
    acc = Acc()
    f = sp.finalize_SPAKE2_symmetric
    keys = set()
    for rest in itertools.product(ALPHA, repeat=4):
        t = (first,) + rest
        got = T.observe(f, *t)
        exp = ref_sym(*t)
        if got != ("ok", exp):
            acc.violation("C17/symmetric-formula", {"what": "finalize_SPAKE2_symmetric differs from SHA256(SHA256(pw)|SHA256(idS)|min|max|K)",
                          "replay": {"fn": "sym", "args": list(t)}, "expected": exp, "observed": got})
        sw = T.observe(f, t[0], t[2], t[1], t[3], t[4])
        if sw != got:
            acc.violation("C17/symmetric-swap", {"what": "finalize_SPAKE2_symmetric is not invariant under exchanging m1 and m2",
                          "replay": {"fn": "sym", "args": [t[0], t[2], t[1], t[3], t[4]]}, "expected": got, "observed": sw})
        keys.add(got[1] if got[0] == "ok" else None)
    acc.n(states=len(ALPHA) ** 4, transitions=2 * len(ALPHA) ** 4, traces=len(ALPHA) ** 4)
    for k in keys:
        acc.seen(core.h8(k))
    acc.sample({"call": "finalize_SPAKE2_symmetric", "args": list(t), "key": exp})
    return acc


def _poison(acc):
    """calls that raise (arguments of the wrong type at each position) followed by valid calls: the result of a valid call
    must not depend on what was attempted before"""
    sp = T.lib().sp
    probes = [(b"ab", b"c", b"X", b"Y", b"K", b"pw"), (b"", b"", b"", b"", b"", b""), (b"a", b"bc", b"X", b"Y", b"K", b"pw")]
    sprobes = [(b"id", b"m1", b"m2", b"K", b"pw"), (b"", b"b", b"a", b"", b"")]
    for bad in ("text", None, 5, [b"x"]):
        for pos in range(6):
            t = list(probes[0])
            t[pos] = bad
            T.observe(sp.finalize_SPAKE2, *t)
            for p in probes:
                got = T.observe(sp.finalize_SPAKE2, *p)
                acc.n(states=1, transitions=2)
                if got != ("ok", ref_asym(*p)):
                    acc.violation("C17/asymmetric-after-failed-call", {"what": "finalize_SPAKE2 on valid arguments is wrong after an earlier call raised (argument %d was %r)" % (pos, bad),
                                  "replay": {"fn": "asym", "args": list(p)}, "expected": ref_asym(*p), "observed": got})
        for pos in range(5):
            t = list(sprobes[0])
            t[pos] = bad
            T.observe(sp.finalize_SPAKE2_symmetric, *t)
            for p in sprobes:
                got = T.observe(sp.finalize_SPAKE2_symmetric, *p)
                acc.n(states=1, transitions=2)
                if got != ("ok", ref_sym(*p)):
                    acc.violation("C17/symmetric-after-failed-call", {"what": "finalize_SPAKE2_symmetric on valid arguments is wrong after an earlier call raised (argument %d was %r)" % (pos, bad),
                                  "replay": {"fn": "sym", "args": list(p)}, "expected": ref_sym(*p), "observed": got})
    acc.seen(("poison", "done"))


def _soak_and_blocks(acc, tier):
    """(1) a long history: N distinct argument tuples, then the first ones again (a bounded pool / ring / counter that wraps
    shows only after thousands of distinct calls); (2) arguments on hash-block and buffer-size boundaries."""
    sp = T.lib().sp
    N = 6000 if tier == "quick" else 70000
    first = []
    for i in range(N):
        t = (b"idA-%d" % (i % 97), b"idB-%d" % (i // 97), b"X", b"Y", b"K", b"pw-%d" % (i % 13))
        got = T.observe(sp.finalize_SPAKE2, *t)
        if i < 64:
            first.append(t)
        if got != ("ok", ref_asym(*t)):
            acc.violation("C17/asymmetric-formula", {"what": "finalize_SPAKE2 differs from the formula on call #%d of a long history" % i,
                          "replay": {"fn": "asym", "args": list(t)}, "expected": ref_asym(*t), "observed": got})
            break
        s = (b"idS-%d" % i, b"m1", b"m2-%d" % (i % 5), b"K", b"pw")
        got = T.observe(sp.finalize_SPAKE2_symmetric, *s)
        if got != ("ok", ref_sym(*s)):
            acc.violation("C17/symmetric-formula", {"what": "finalize_SPAKE2_symmetric differs from the formula on call #%d of a long history" % i,
                          "replay": {"fn": "sym", "args": list(s)}, "expected": ref_sym(*s), "observed": got})
            break
    acc.n(states=2 * N, transitions=2 * N)
    for t in first:
        got = T.observe(sp.finalize_SPAKE2, *t)
        acc.n(transitions=1)
        if got != ("ok", ref_asym(*t)):
            acc.violation("C17/asymmetric-after-long-history", {"what": "finalize_SPAKE2 is wrong for arguments used before, after %d other distinct calls" % N,
                          "replay": {"fn": "asym-history", "n": N, "args": list(t)}, "expected": ref_asym(*t), "observed": got})
            break
    acc.seen(("soak", N))
    sizes = [1, 16, 20, 28, 31, 32, 33, 48, 55, 56, 63, 64, 65, 119, 127, 128, 4095, 4096, 4097, 8191, 8192, 8193, 65535, 65536, 65537] + \
            ([] if tier == "quick" else [12289, 131073, 1 << 20])
    for n in sizes:
        for pos in range(6):
            a = [b"a", b"b", b"X", b"Y", b"K", b"p"]
            a[pos] = bytes([(i * 7 + pos) % 251 for i in range(n)])
            b = list(a)
            b[pos] = a[pos][:-1] + bytes([a[pos][-1] ^ 1])
            for t in (a, b):
                got = T.observe(sp.finalize_SPAKE2, *t)
                acc.n(states=1, transitions=1)
                if got != ("ok", ref_asym(*t)):
                    acc.violation("C17/asymmetric-formula", {"what": "finalize_SPAKE2 differs from the formula for an argument of %d bytes (position %d)" % (n, pos),
                                  "replay": {"fn": "asym-size", "n": n, "pos": pos}, "expected": ref_asym(*t), "observed": got})
            if pos < 5:
                sa = [b"i", b"m1", b"m2", b"K", b"p"]
                sa[pos] = bytes([(i * 7 + pos) % 251 for i in range(n)])
                sb = list(sa)
                sb[pos] = sa[pos][:-1] + bytes([sa[pos][-1] ^ 1])
                for t in (sa, sb):
                    got = T.observe(sp.finalize_SPAKE2_symmetric, *t)
                    acc.n(states=1, transitions=1)
                    if got != ("ok", ref_sym(*t)):
                        acc.violation("C17/symmetric-formula", {"what": "finalize_SPAKE2_symmetric differs from the formula for an argument of %d bytes (position %d)" % (n, pos),
                                      "replay": {"fn": "sym-size", "n": n, "pos": pos}, "expected": ref_sym(*t), "observed": got})
        acc.seen(("size", n))


def _labels(acc):
    """fields that begin with the protocol's own label bytes A / B / S (a function that 'helpfully' strips a side byte, or treats a
    32-byte identity as a digest, only shows on such values), of equal and of different lengths, in every position"""
    sp = T.lib().sp
    vals = [b"S", b"A", b"B", b"Sx", b"Sy", b"Ax", b"By", b"SS", b"S" + b"\x01" * 32, b"S" + b"\x02" * 32, b"A" + b"\x01" * 32, b"B" + b"\x03" * 32,
            b"\x53" * 33, b"I" * 32, b"J" * 32, hashlib.sha256(b"I" * 32).digest()]
    for m1, m2 in itertools.product(vals, repeat=2):
        for idS, K, pw in ((b"", b"K", b"pw"), (b"S", b"S", b"S")):
            t = (idS, m1, m2, K, pw)
            got = T.observe(sp.finalize_SPAKE2_symmetric, *t)
            acc.n(states=1, transitions=1)
            if got != ("ok", ref_sym(*t)):
                acc.violation("C17/symmetric-formula", {"what": "finalize_SPAKE2_symmetric differs from the formula for messages that begin with a label byte",
                              "replay": {"fn": "sym", "args": list(t)}, "expected": ref_sym(*t), "observed": got})
    for a, b in itertools.product(vals, repeat=2):
        for X, Y in ((b"X", b"Y"), (b"S" + b"\x01" * 32, b"S" + b"\x02" * 32)):
            t = (a, b, X, Y, b"K", a)
            got = T.observe(sp.finalize_SPAKE2, *t)
            acc.n(states=1, transitions=1)
            if got != ("ok", ref_asym(*t)):
                acc.violation("C17/asymmetric-formula", {"what": "finalize_SPAKE2 differs from the formula for identities / messages of special form (label bytes, 32-byte values)",
                              "replay": {"fn": "asym", "args": list(t)}, "expected": ref_asym(*t), "observed": got})
    acc.seen(("labels", len(vals)))


def _extra(acc):
    sp = T.lib().sp
    # byte pairs that expose signed comparison, length-first sorting, prefix handling
    for m1, m2 in itertools.product(EXTRA, repeat=2):
        for idS, K, pw in ((b"", b"K", b"pw"), (b"i", b"", b"")):
            t = (idS, m1, m2, K, pw)
            got = T.observe(sp.finalize_SPAKE2_symmetric, *t)
            exp = ref_sym(*t)
            if got != ("ok", exp):
                acc.violation("C17/symmetric-formula", {"what": "finalize_SPAKE2_symmetric differs from the formula (byte-order sort)",
                              "replay": {"fn": "sym", "args": list(t)}, "expected": exp, "observed": got})
            acc.n(states=1, transitions=1)
    # fixed-width injectivity: messages/K of one width, any single changed argument changes the key
    for width in (1, 2):
        vals = [bytes([v]) * width for v in (0, 1, 255)] + ([b"\x00\x01", b"\x01\x00"] if width == 2 else [])
        ids = [b"", b"a", b"ab", b"b"]
        pws = [b"", b"a", b"\x00"]
        table = {}
        for t in itertools.product(ids, ids, vals, vals, vals, pws):
            got = T.observe(sp.finalize_SPAKE2, *t)
            acc.n(states=1, transitions=1)
            if got[0] != "ok":
                continue
            if got[1] in table and table[got[1]] != t:
                acc.violation("C17/asymmetric-collision", {"what": "two different fixed-width argument tuples give the same key",
                              "replay": {"fn": "asym", "args": list(t)}, "expected": "distinct keys", "observed": [list(table[got[1]]), list(t)]})
            table[got[1]] = t
        table = {}
        for t in itertools.product(ids, vals, vals, vals, pws):
            got = T.observe(sp.finalize_SPAKE2_symmetric, *t)
            acc.n(states=1, transitions=1)
            if got[0] != "ok":
                continue
            canon = (t[0],) + tuple(sorted(t[1:3])) + t[3:]
            if got[1] in table and table[got[1]] != canon:
                acc.violation("C17/symmetric-collision", {"what": "two different fixed-width argument tuples (up to m1<->m2) give the same key",
                              "replay": {"fn": "sym", "args": list(t)}, "expected": "distinct keys", "observed": [list(table[got[1]]), list(t)]})
            table[got[1]] = canon
    a = T.observe(sp.finalize_SPAKE2, b"ab", b"c", b"X", b"Y", b"K", b"pw")
    b = T.observe(sp.finalize_SPAKE2, b"a", b"bc", b"X", b"Y", b"K", b"pw")
    if a == b:
        acc.violation("C17/id-concatenation", {"what": "(idA,idB)=('ab','c') and ('a','bc') give the same key",
                      "replay": {"fn": "asym", "args": [b"a", b"bc", b"X", b"Y", b"K", b"pw"]}, "expected": "differ", "observed": b})


# ---------------------------------------------------------------------------
# the spelling of the call: the released parameter names used as keywords, in every order, and every positional prefix followed
# by keywords.  A keyword the function does not know (TypeError) is a refusal, not a wrong key.

ASYM_NAMES = ("idA", "idB", "X_msg", "Y_msg", "K_bytes", "pw")
SYM_NAMES = ("idSymmetric", "msg1", "msg2", "K_bytes", "pw")


def _keywords(acc):
    sp = T.lib().sp
    for fn, f, names, ref, tuples in (("asym", sp.finalize_SPAKE2, ASYM_NAMES, ref_asym, [(b"idA", b"idB", b"X-msg", b"Y-msg", b"K-bytes", b"pw"), (b"a", b"", b"m", b"m", b"", b"a")]),
                                      ("sym", sp.finalize_SPAKE2_symmetric, SYM_NAMES, ref_sym, [(b"idS", b"m2", b"m1", b"K-bytes", b"pw"), (b"", b"a", b"b", b"b", b"a")])):
        for t in tuples:
            exp = ref(*t)
            for npos in range(len(names) + 1):
                rest = list(zip(names[npos:], t[npos:]))
                for perm in itertools.permutations(rest):
                    got = T.observe(lambda: f(*t[:npos], **dict(perm)))
                    acc.n(states=1, transitions=1)
                    acc.seen(("keywords", fn, npos, got[0]))
                    if got == ("exc", "TypeError"):
                        continue
                    if got != ("ok", exp):
                        acc.violation("C17/%s-keyword-spelling" % ("asymmetric" if fn == "asym" else "symmetric"),
                                      {"what": "the key depends on how the call is spelled: %d positional arguments, then keywords in the order %s" % (npos, [k for k, _ in perm]),
                                       "replay": {"fn": fn + "-kw", "args": list(t), "npos": npos, "order": [k for k, _ in perm]}, "expected": exp, "observed": got})


# ---------------------------------------------------------------------------
# the two functions called at the same time from several threads: every schedule within the preemption bound

THREAD_CALLS = {
    "sym+sym": [("sym", (b"idS", b"m1", b"m0", b"K-one", b"pw1")), ("sym", (b"idT", b"n0", b"n1", b"K-two", b"pw2"))],
    "asym+asym": [("asym", (b"idA", b"idB", b"X1", b"Y1", b"K-one", b"pw1")), ("asym", (b"idC", b"idD", b"X2", b"Y2", b"K-two", b"pw2"))],
    "sym+asym": [("sym", (b"idS", b"m1", b"m0", b"K-one", b"pw1")), ("asym", (b"idA", b"idB", b"X1", b"Y1", b"K-two", b"pw2"))],
    "sym+sym+sym": [("sym", (b"idS", b"m1", b"m0", b"K-one", b"pw1")), ("sym", (b"idT", b"n0", b"n1", b"K-two", b"pw2")), ("sym", (b"", b"", b"", b"", b""))],
    "same-args": [("sym", (b"idS", b"m1", b"m0", b"K", b"pw")), ("sym", (b"idS", b"m0", b"m1", b"K", b"pw"))],
}


def _thread_bodies(name):
    sp = T.lib().sp
    out = []
    for fn, args in THREAD_CALLS[name.split("@")[0]]:
        f = sp.finalize_SPAKE2 if fn == "asym" else sp.finalize_SPAKE2_symmetric
        out.append(lambda f=f, args=args: f(*args))
    return out


def _thread_task(task):
    from .. import sched
    name, bound = task
    acc = Acc()
    opc = name.endswith("@opcode")
    exp = [("ok", (ref_asym if fn == "asym" else ref_sym)(*args)) for fn, args in THREAD_CALLS[name.split("@")[0]]]
    for b in _thread_bodies(name):
        T.observe(b)
    if opc:
        sched.warm_opcodes(_thread_bodies(name), T.PKG)
    outcomes = set()

    def on_result(res, run):
        acc.n(transitions=len(run.points), traces=1, states=1, evaluations=len(res))
        outcomes.add(core.h8(res))
        if res != exp:
            pre = sum(1 for c, (n, re) in zip(run.choices, run.points) if re and c != 0)
            acc.violation("C17/threads/%s/key-depends-on-schedule" % name.split("@")[0],
                          {"what": "finalize functions called from %d threads: a schedule with %d preemption(s) returns a key that is not the defined hash of the call's own arguments" % (len(res), pre),
                           "replay": {"fn": "schedule", "name": name, "choices": list(run.choices)}, "expected": exp, "observed": res})
    try:
        n = sched.explore(lambda: _thread_bodies(name), bound, T.PKG, on_result, opcodes=opc)
        acc.inst(name, schedules=n)
    except sched.Divergence as e:
        acc.degrade("thread-schedule exploration incomplete for %s (%s)" % (name, e))
    acc.seen(("threads", name, len(outcomes)))
    return acc


def _dbg_task(t):
    """the same tuples with the logging module switched to DEBUG for the whole process"""
    with T.debug_logging():
        a = _asym_task(t[1]) if t[0] == "asym" else _sym_task(t[1])
    return a.tag_env("debug-logging")


def run(tier, seed):
    acc = Acc()
    thr = [("sym+sym", 2), ("asym+asym", 2), ("sym+asym", 2), ("same-args", 2), ("sym+sym@opcode", 1), ("asym+asym@opcode", 1)]
    if tier != "quick":
        thr = [("sym+sym", 4), ("asym+asym", 4), ("sym+asym", 4), ("same-args", 4), ("sym+sym+sym", 2), ("sym+sym@opcode", 2), ("asym+asym@opcode", 2), ("sym+asym@opcode", 2)]
    core.pmerge(_thread_task, thr, acc)
    if tier != "quick":
        ALPHA[:] = ALPHA_THOROUGH
    core.pmerge(_asym_task, [(a, b) for a in ALPHA for b in ALPHA], acc)
    core.pmerge(_sym_task, ALPHA, acc)
    core.pmerge(_dbg_task, [("asym", (a, b)) for a in ALPHA[:3] for b in ALPHA[:3]] + [("sym", a) for a in ALPHA[:3]], acc)
    _extra(acc)
    _keywords(acc)
    _labels(acc)
    _poison(acc)
    _soak_and_blocks(acc, tier)
    return acc


def replay(rec):
    r = T.unjson(rec["replay"])
    r.pop("env", None)
    sp = T.lib().sp
    if r["fn"] == "schedule":
        from .. import sched
        opc = r["name"].endswith("@opcode")
        for b in _thread_bodies(r["name"]):
            T.observe(b)
        if opc:
            sched.warm_opcodes(_thread_bodies(r["name"]), T.PKG)
        return sched.Run(_thread_bodies(r["name"]), r["choices"], T.PKG, opc).run()
    if r["fn"] in ("asym-size", "sym-size", "asym-history"):
        return "re-run the check (needs the history / the large argument)"
    if r["fn"].endswith("-kw"):
        f, names = (sp.finalize_SPAKE2, ASYM_NAMES) if r["fn"] == "asym-kw" else (sp.finalize_SPAKE2_symmetric, SYM_NAMES)
        vals = dict(zip(names, r["args"]))
        return T.observe(lambda: f(*r["args"][:r["npos"]], **{k: vals[k] for k in r["order"]}))
    f = sp.finalize_SPAKE2 if r["fn"] == "asym" else sp.finalize_SPAKE2_symmetric
    return T.observe(f, *r["args"])
