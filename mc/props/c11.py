"""C11 - secret scalars are sampled without bias and only from the entropy function.

E2: the complete choice tree of the entropy function - every byte answer of every draw,
bounded number of re-draws - through the real unbiased_randrange and random_scalar; exact
uniformity count; reference sampler; entropy-request ledger over the whole session life."""
import random
from .. import target as T, core, explore
from ..core import Acc
from ..ref import spake2 as RS
from . import common as C

LEVEL = "model_checking"
RULE = ("unbiased_randrange(start, start+n, f): for every width n in [1,256] (and the listed wider n: quick 24 widths around 2^k, 257, 509, "
        "4095..65536; thorough every n <= 4096) EVERY answer of the first draw (256 or 65536 answers, as many bytes as the code requests); "
        "re-draw tree: every rejected first answer x every second answer (x every third for n <= 16) for the listed n; start in {0,1,7}. "
        "oracle: every value of [start,stop) is produced by the same number of answers, nothing outside, at least half of the answers "
        "accepted, value = reference sampler, a re-draw uses fresh bytes only. shipped q / L: structured answer streams vs the reference "
        "sampler; Ed25519: one 64-byte request, big-endian mod L (all 65536 low-two-byte patterns on a toy curve). ledger: construction, "
        "finish, serialize, from_serialized request nothing. states = (range, answer prefix) nodes of the choice tree; transitions = "
        "sampler executions. distinct_nontrivial = distinct (width, number of draws) classes with a verified exact uniform count")
ASSUMPTIONS = ["entropy_f is the only input of the sampler (os.urandom is never reached: an entropy function is always passed)",
               "uniformity is counted over all answers of the draw width the code itself requests"]
EXHAUSTIVE = True

QUICK_WIDE = [257, 300, 509, 511, 512, 513, 1000, 1023, 1024, 1025, 2047, 2048, 2049, 4095, 4096, 4097, 8191, 8192, 8193,
              32767, 32768, 32769, 65535, 65536]
REDRAW_QUICK = list(range(1, 18)) + [31, 32, 33, 63, 64, 65, 127, 128, 129, 200, 255, 256]


def bounds(tier):
    return {"first_draw_complete_for_widths": "1..256 + " + ("%d listed" % len(QUICK_WIDE) if tier == "quick" else "257..4096 + listed"),
            "redraw_tree_widths": REDRAW_QUICK if tier == "quick" else "1..256", "redraw_depth": "2; 3 for n in %s" % ("{3,6,7}" if tier == "quick" else "1..16"), "starts": [0, 1, 7]}


def ref_sample(n, start, answers):
    """reference rejection sampler on a list of answers; returns (value | None, draws used)"""
    nbits = n.bit_length() or 1
    mask = (1 << nbits) - 1
    for i, a in enumerate(answers):
        c = int.from_bytes(a, "big") & mask
        if c < n:
            return start + c, i + 1
    return None, len(answers)


def ref_scalar(R, answers):
    it = iter(answers)
    try:
        return R.sample_scalar(lambda n: next(it))
    except StopIteration:
        return None, len(answers)


def _width_task(task):
    n, starts, depth = task
    U = T.lib().util
    acc = Acc()
    for start in starts:
        stop = start + n
        counts = {}
        total = accepted = 0
        ksize = None
        for answers, res, sizes in explore.choice_tree(lambda f: T.observe(U.unbiased_randrange, start, stop, f), depth, _menu(n)):
            acc.n(states=1, transitions=1)
            total_here = 1
            if res is explore.PENDING:
                want, _ = ref_sample(n, start, list(answers))
                if want is not None:
                    acc.violation("C11/randrange/redraws-after-acceptable-answer", {"what": "the sampler asks for more bytes although an answer was acceptable",
                                  "replay": {"fn": "randrange", "start": start, "stop": stop, "answers": list(answers)}, "expected": want, "observed": "another draw"})
                continue
            want, used = ref_sample(n, start, list(answers))
            if ksize is None and sizes:
                ksize = sizes[0]
            if len(set(sizes)) > 1:
                acc.violation("C11/randrange/draw-width-varies", {"what": "draws of one call request different numbers of bytes",
                              "replay": {"fn": "randrange", "start": start, "stop": stop, "answers": list(answers)}, "expected": sizes[0], "observed": sizes})
            if res[0] != "ok":
                acc.violation("C11/randrange/raises", {"what": "unbiased_randrange raises", "replay": {"fn": "randrange", "start": start, "stop": stop, "answers": list(answers)},
                              "expected": want, "observed": res})
                continue
            v = res[1]
            if not (start <= v < stop):
                acc.violation("C11/randrange/out-of-range", {"what": "value outside [start, stop)", "replay": {"fn": "randrange", "start": start, "stop": stop, "answers": list(answers)},
                              "expected": "[%d,%d)" % (start, stop), "observed": v})
            if want is None or v != want or used != len(answers):
                acc.violation("C11/randrange/differs-from-rejection-sampling", {"what": "value differs from mask-compare-retry rejection sampling (or an earlier acceptable answer was skipped / a rejected one used)",
                              "replay": {"fn": "randrange", "start": start, "stop": stop, "answers": list(answers)}, "expected": want, "observed": v})
            if len(answers) == 1:
                counts[v] = counts.get(v, 0) + 1
        # exact uniformity over the complete first draw
        if ksize is not None and ksize <= 2:
            space = 256 ** ksize
            acc_n = sum(counts.values())
            cvals = set(counts.values())
            if set(counts) != set(range(start, stop)) or len(cvals) != 1:
                acc.violation("C11/randrange/not-uniform", {"what": "over all %d first answers the values of [start,stop) are not hit equally often" % space,
                              "replay": {"fn": "randrange-count", "start": start, "stop": stop}, "expected": "each of %d values equally often" % n,
                              "observed": {"distinct_values": len(counts), "min": min(counts.values()) if counts else 0, "max": max(counts.values()) if counts else 0}})
            elif 2 * acc_n < space:
                acc.violation("C11/randrange/too-many-rejections", {"what": "more than half of the answers are rejected (expected draws > 2)",
                              "replay": {"fn": "randrange-count", "start": start, "stop": stop}, "expected": ">= %d accepted" % (space // 2), "observed": acc_n})
            else:
                acc.seen((n, depth, next(iter(cvals))))
        acc.n(traces=1)
        if n > 255:
            _wide_redraws(n, start, acc)
    acc.sample({"call": "unbiased_randrange(%d, %d, f)" % (starts[-1], starts[-1] + n), "tree_depth": depth})
    return acc


def _long_chains(acc):
    """re-draw chains far beyond the depth of the exhaustive trees: k rejected answers, then an acceptable one"""
    U = T.lib().util
    for n in (1, 3, 5, 9, 17, 129, 257, 0x180, 65537):
        k = max(1, (n.bit_length() + 7) // 8)
        mask = (1 << n.bit_length()) - 1
        rej = [v for v in (mask, n, (n + mask) // 2) if (v & mask) >= n]
        if not rej:
            continue
        for chain in (4, 8, 15, 16, 17, 32, 64, 128, 255, 256, 300):
            answers = [(rej[i % len(rej)]).to_bytes(k, "big") for i in range(chain)] + [((chain * 7) % n).to_bytes(k, "big")]
            want, used = ref_sample(n, 2, answers)
            sc = T.Script(answers, cap=1000)
            got = T.observe(U.unbiased_randrange, 2, 2 + n, sc)
            acc.n(states=1, transitions=1)
            if got != ("ok", want) or sc.calls != [k] * used:
                acc.violation("C11/randrange/long-redraw-chain", {"what": "after %d rejected draws the sampler does not return the next acceptable value (rejection sampling has no retry limit)" % chain,
                              "replay": {"fn": "randrange", "start": 2, "stop": 2 + n, "answers": answers}, "expected": [want, [k] * used], "observed": [got, sc.calls]})
        acc.seen((n, "long-chains"))


def _wide_redraws(n, start, acc):
    """draws of 2+ bytes: the complete second level is 65536^2; explore a structured slice of it instead - a band of rejected
    first answers x a menu of second answers (x one third answer after two rejections)"""
    U = T.lib().util
    k = max(1, (n.bit_length() + 7) // 8)
    mask = (1 << n.bit_length()) - 1
    enc = lambda v: (v % (1 << 8 * k)).to_bytes(k, "big")
    rejected = [v for v in (n, n + 1, n + 2, (n + mask) // 2, mask - 1, mask, mask + 1 + n, (1 << 8 * k) - 1) if (v & mask) >= n]
    seconds = [0, 1, 255, 256, n - 1, n, mask, (1 << 8 * k) - 1, n // 2, 0x0101 % (1 << 8 * k)]
    for r1 in rejected:
        for s2 in seconds:
            answers = [enc(r1), enc(s2), enc(3 % n), enc(4 % n)]
            want, used = ref_sample(n, start, answers)
            sc = T.Script(answers)
            got = T.observe(U.unbiased_randrange, start, start + n, sc)
            acc.n(states=1, transitions=1)
            if got != ("ok", want) or sc.calls != [k] * used:
                acc.violation("C11/randrange/redraw-differs-from-rejection-sampling",
                              {"what": "after a rejected first draw the value or the bytes requested differ from fresh mask-compare-retry sampling",
                               "replay": {"fn": "randrange", "start": start, "stop": start + n, "answers": answers}, "expected": [want, [k] * used],
                               "observed": [got, sc.calls]})
    acc.seen((n, "wide-redraw", len(rejected)))


def _menu(n):
    def menu(k, depth):
        vals = {0, 1, n - 1, n, n + 1, (1 << (n.bit_length())) - 1, (1 << 8 * k) - 1, (1 << 8 * k) - 2, n // 2, 1 << (8 * k - 1)}
        return [(v % (1 << 8 * k)).to_bytes(k, "big") for v in sorted(vals)]
    return menu


def _shipped_task(task):
    name, seed = task
    acc = Acc()
    inst, why = T.try_get(name)
    if inst is None:
        acc.degrade("%s unavailable: %s" % (name, why))
        return acc
    R, g, q = inst.ref, inst.group, inst.q
    rnd = random.Random("%s/%s" % (name, seed))
    if R.kind == "int":
        k = R.ssize
        top = (1 << (q.bit_length())) - 1
        enc = lambda v: (v % (1 << 8 * k)).to_bytes(k, "big")
        streams = [[enc(0)], [enc(1)], [enc(q - 1)], [enc(q), enc(5)], [enc(q + 1), enc(q), enc(7)], [enc(top), enc(q - 2)],
                   [enc((1 << 8 * k) - 1), enc(3)], [enc(1 << (q.bit_length() - 1))], [enc((1 << (q.bit_length() - 1)) - 1)],
                   [enc(top), enc(top - 1 if top - 1 >= q else q), enc(9)], [enc(q + (1 << q.bit_length())), enc(2)] if q + (1 << q.bit_length()) < (1 << 8 * k) else [enc(4)],
                   [enc(rnd.randrange(1 << 8 * k)) for _ in range(40)], [enc(rnd.randrange(1 << 8 * k)) for _ in range(40)]]
        # long chains of rejected draws before an acceptable one (rejection sampling has no retry limit)
        for chain in (3, 4, 7, 8, 15, 16, 17, 31, 32, 33, 63, 64, 100, 200):
            streams.append([enc(top - (i % 7)) if top - (i % 7) >= q else enc(q) for i in range(chain)] + [enc(chain % q)])
    else:
        k = 64
        enc = lambda v: (v % (1 << 512)).to_bytes(64, "big")
        streams = [[enc(0)], [enc(1)], [enc(q - 1)], [enc(q)], [enc(q + 1)], [enc((1 << 512) - 1)], [enc(1 << 511)], [enc((1 << 252))], [enc((1 << 256) - 1)],
                   [enc(q * q + 5)], [b"\x00" * 63 + b"\x01"], [b"\x01" + b"\x00" * 63], [enc(rnd.randrange(1 << 512))], [enc(rnd.randrange(1 << 512))]]
    for st in streams:
        sc = T.Script(list(st), cap=1000)
        got = T.observe(g.random_scalar, sc)
        want, draws = ref_scalar(R, st)
        acc.n(states=1, transitions=1, traces=1)
        if got != ("ok", want) or sc.calls != [k] * draws:
            acc.violation("C11/%s/random_scalar" % name, {"what": "random_scalar differs from the reference sampler (value or bytes requested)",
                          "replay": {"fn": "random_scalar", "inst": inst.desc, "answers": list(st)}, "expected": [want, [k] * draws], "observed": [got, sc.calls]})
        acc.seen((name, draws))
        # through a session: the scalar reported by serialize() is the sampled one
        for side in ("A", "S"):
            sc2 = T.Script(list(st), cap=1000)
            s = inst.new(side, b"pw", None, entropy=sc2)
            m = T.observe(s.start)
            x = T.read_scalar(inst, s) if m[0] == "ok" else None
            acc.n(transitions=1)
            if m[0] != "ok" or x != want:
                acc.violation("C11/%s/session-scalar" % name, {"what": "the session's secret scalar is not the one sampled from the entropy function",
                              "replay": {"fn": "session", "inst": inst.desc, "side": side, "answers": list(st)}, "expected": want, "observed": [m[0], x]})
    acc.sample({"inst": name, "stream": [a for a in streams[4]]})
    return acc


def _toy_scalar_task(task):
    """random_scalar of small groups over the complete first draw"""
    name, = task
    acc = Acc()
    inst, why = T.try_get(name)
    if inst is None:
        acc.degrade("%s unavailable: %s" % (name, why))
        return acc
    R, g, q = inst.ref, inst.group, inst.q
    if R.kind == "int":
        counts = {}
        for answers, res, sizes in explore.choice_tree(lambda f: T.observe(g.random_scalar, f), 2 if R.ssize == 1 else 1):
            acc.n(states=1, transitions=1)
            if res is explore.PENDING:
                continue
            want, draws = ref_scalar(R, answers)
            if res != ("ok", want) or draws != len(answers):
                acc.violation("C11/%s/random_scalar" % inst.kind, {"what": "random_scalar differs from the reference sampler", "replay": {"fn": "random_scalar", "inst": inst.desc, "answers": list(answers)},
                              "expected": want, "observed": res})
            if len(answers) == 1 and res[0] == "ok":
                counts[res[1]] = counts.get(res[1], 0) + 1
        if set(counts) != set(range(q)) or len(set(counts.values())) != 1:
            acc.violation("C11/%s/random_scalar-not-uniform" % inst.kind, {"what": "scalars are not hit equally often over the complete first draw",
                          "replay": {"fn": "random_scalar-count", "inst": inst.desc}, "expected": q, "observed": sorted(set(counts.values()))})
        else:
            acc.seen((name, "uniform", next(iter(counts.values()))))
    else:
        # 64-byte request: all 65536 low-two-byte patterns (x a few high parts)
        for hi in (0, 1, (1 << 496) - 1):
            counts = {}
            for lo in range(65536):
                a = ((hi << 16) | lo).to_bytes(64, "big")
                sc = T.Script([a])
                got = T.observe(g.random_scalar, sc)
                want = int.from_bytes(a, "big") % q
                acc.n(states=1, transitions=1)
                if got != ("ok", want) or sc.calls != [64]:
                    acc.violation("C11/ed/random_scalar", {"what": "Ed25519 random_scalar is not the big-endian integer of one 64-byte request mod L",
                                  "replay": {"fn": "random_scalar", "inst": inst.desc, "answers": [a]}, "expected": [want, [64]], "observed": [got, sc.calls]})
                if got[0] == "ok":
                    counts[got[1]] = counts.get(got[1], 0) + 1
            if set(counts) == set(range(q)) and max(counts.values()) - min(counts.values()) <= 1:
                acc.seen((name, "near-uniform", hi % 7))
    acc.n(traces=1)
    return acc


class FalsyScript(T.Script):
    """an entropy function that is a perfectly good callable but falsy (an empty pool object with __len__ == 0)"""

    def __len__(self):
        return 0


def _neighbours_task(task):
    """candidates that differ from q in exactly two 16-bit words / bytes: q with unit i raised and unit j lowered (i < j, must be
    rejected: it is >= q) and lowered-then-raised (must be accepted)"""
    name, unit = task
    acc = Acc()
    inst, why = T.try_get(name)
    if inst is None or inst.ref.kind != "int":
        return acc
    R, g, q = inst.ref, inst.group, inst.q
    k = R.ssize
    nunits = (8 * k) // unit
    mask_bits = q.bit_length()
    n = 0
    for i in range(nunits):
        for j in range(i + 1, nunits):
            si, sj = unit * (nunits - 1 - i), unit * (nunits - 1 - j)
            for c in (q + (1 << si) - (1 << sj), q - (1 << si) + (1 << sj)):
                if not (0 <= c < (1 << mask_bits)):
                    continue
                st = [c.to_bytes(k, "big"), (7).to_bytes(k, "big")]
                sc = T.Script(list(st))
                got = T.observe(g.random_scalar, sc)
                want, draws = ref_scalar(R, st)
                n += 1
                if got != ("ok", want) or sc.calls != [k] * draws:
                    acc.violation("C11/%s/random_scalar" % name, {"what": "random_scalar differs from the reference sampler for a candidate that differs from q in two %d-bit units" % unit,
                                  "replay": {"fn": "random_scalar", "inst": inst.desc, "answers": list(st)}, "expected": [want, [k] * draws], "observed": [got, sc.calls]})
    acc.n(states=n, transitions=n, traces=1)
    acc.seen((name, "neighbours", unit))
    return acc


def _falsy_task(task):
    name, side = task
    acc = Acc()
    inst, why = T.try_get(name)
    if inst is None:
        return acc
    R = inst.ref
    for x in (3 % inst.q, 0):
        ent = FalsyScript(R.entropy_for_scalar(x))
        s = inst.new(side, b"pw", C.ids_for(side, 1), entropy=ent)
        m = T.observe(s.start)
        xo = T.read_scalar(inst, s) if m[0] == "ok" else None
        acc.n(states=1, transitions=2)
        if m[0] != "ok" or xo != x or len(ent.calls) != 1:
            acc.violation("C11/%s/falsy-entropy-function" % (inst.kind if inst.small else inst.name),
                          {"what": "a supplied entropy function that is falsy (an object with __len__ == 0) is not the source of the scalar",
                           "replay": {"fn": "falsy", "inst": inst.desc, "side": side, "x": x}, "expected": [x, 1], "observed": [m[0], xo, len(ent.calls)]})
    acc.seen((name, side, "falsy"))
    return acc


def _ledger_task(task):
    """entropy is requested by start() only"""
    name, side = task
    acc = Acc()
    inst, why = T.try_get(name)
    if inst is None:
        acc.degrade("%s unavailable: %s" % (name, why))
        return acc
    R, q = inst.ref, inst.q
    F = inst.kind if inst.small else inst.name
    for x in (range(q) if inst.small else C.edge_scalars(q, 0, 0)[:3]):
        ent = inst.entropy(x, extra=3)
        s = inst.new(side, b"pw", C.ids_for(side, 1), entropy=ent)
        ledger = [("construct", list(ent.calls))]
        m = T.observe(T.do_start, s)
        n_start = len(ent.calls)
        ledger.append(("start", list(ent.calls)))
        blob = T.observe(s.serialize)
        ledger.append(("serialize", list(ent.calls)))
        r = T.observe(inst.restore, side, blob[1]) if blob[0] == "ok" else ("exc", "-")
        ledger.append(("from_serialized", list(ent.calls)))
        w = R.pw_scalar(b"pw")
        for kind, d in C.inbound_menu(inst, side, w, x)[:4]:
            import copy
            T.observe(T.snapshot(s).finish, d)
            if r[0] == "ok":
                got = T.observe(T.snapshot(r[1]).finish, d)
                if got == ("exc", "NotImplementedError") or got == ("exc", "EntropyExhausted"):
                    acc.violation("C11/%s/restored-instance-draws-entropy" % F, {"what": "finish() on a restored instance asks for entropy",
                                  "replay": {"fn": "ledger", "inst": inst.desc, "side": side, "x": x}, "expected": "no request", "observed": got})
        ledger.append(("finish", list(ent.calls)))
        acc.n(states=1, transitions=8, traces=1)
        want_sizes = [64] if R.kind == "ed" else [R.ssize]
        if ledger[0][1] != [] or len(ent.calls) != n_start or (m[0] == "ok" and ent.calls[:1] != want_sizes[:1]) or n_start != 1:
            acc.violation("C11/%s/entropy-ledger" % F, {"what": "entropy requested outside start(), or start() requests other than one draw of the scalar width for an acceptable answer",
                          "replay": {"fn": "ledger", "inst": inst.desc, "side": side, "x": x}, "expected": [["construct", []], ["start", want_sizes], ["rest", want_sizes]],
                          "observed": ledger})
        acc.seen((F, side, tuple(ent.calls)))
    return acc


class Failing:
    """entropy function that delivers its scripted answers up to call `fail_at`, raises there (a source that becomes unavailable),
    and works again afterwards"""

    def __init__(self, answers, fail_at):
        self.answers, self.fail_at, self.calls, self.delivered = list(answers), fail_at, [], []

    def __call__(self, n):
        i = len(self.calls)
        self.calls.append(n)
        if i == self.fail_at:
            raise OSError("entropy source unavailable")
        j = i if i < self.fail_at else i - 1
        if j >= len(self.answers):
            raise T.EntropyExhausted("beyond the script")
        a = self.answers[j]
        a = (int.from_bytes(a, "big") % (1 << 8 * n)).to_bytes(n, "big") if len(a) != n else a
        self.delivered.append(a)
        return a


def failing_run(inst, side, x, fail_at):
    """(outcomes) of: start() while the entropy function raises at its call number fail_at; serialize(); restore + finish; start() again"""
    R = inst.ref
    if fail_at == 0:
        answers = R.entropy_for_scalar(x)
    else:
        k = R.ssize
        top = (1 << (inst.q.bit_length())) - 1
        if top < inst.q:
            return None
        answers = [(top % (1 << 8 * k)).to_bytes(k, "big")] + list(R.entropy_for_scalar(x))       # first answer is rejected, the re-draw fails
    ent = Failing(answers, fail_at)
    s = inst.new(side, b"pw", C.ids_for(side, 1), entropy=ent)
    m1 = T.observe(s.start)
    blob = T.observe(s.serialize)
    sc = None
    fin = None
    if blob[0] == "ok":
        sc = T.read_scalar(inst, s)
        r = T.observe(inst.restore, side, blob[1])
        if r[0] == "ok":
            d = RS.message(inst.rp, C.PEER[side], R.pw_scalar(b"pw"), 3 % inst.q)
            fin = T.observe(r[1].finish, d)
    m2 = T.observe(s.start)
    sc2 = T.read_scalar(inst, s) if m2[0] == "ok" else None
    return {"first_start": m1[0] if m1[0] == "ok" else m1, "serialize_after_failed_start": blob[0] if blob[0] == "ok" else blob, "scalar_in_that_state": sc,
            "restored_finish": None if fin is None else (fin[0] if fin[0] == "ok" else fin), "second_start": m2[0] if m2[0] == "ok" else m2,
            "second_scalar": sc2, "entropy_calls": len(ent.calls)}


def _failing_task(task):
    """the entropy function raises inside start() (on the first draw; on the re-draw after a rejected answer): whatever the instance
    reports afterwards, a secret scalar that no delivered entropy bytes define must never appear in serialize() - it could be
    restored and finished into a key"""
    name, side = task
    acc = Acc()
    inst, why = T.try_get(name)
    if inst is None:
        return acc
    F = inst.kind if inst.small else inst.name
    for x in ((2 % inst.q, 0) if inst.small else (5,)):
        for fail_at in (0, 1):
            if fail_at == 1 and inst.ref.kind != "int":
                continue
            o = failing_run(inst, side, x, fail_at)
            if o is None:
                continue
            acc.n(states=1, transitions=5, traces=1)
            acc.seen((F, side, fail_at, str(o["serialize_after_failed_start"])[:40], str(o["second_start"])[:30]))
            if o["first_start"] == "ok":
                acc.violation("C11/%s/start-succeeds-without-entropy" % F, {"what": "start() returns a message although the supplied entropy function raised during the draw",
                              "replay": {"fn": "failing", "inst": inst.desc, "side": side, "x": x, "fail_at": fail_at}, "expected": "exception", "observed": o})
            elif o["serialize_after_failed_start"] == "ok":
                acc.violation("C11/%s/scalar-without-entropy" % F, {"what": "after a start() in which the entropy function raised (call #%d), serialize() reports a secret scalar "
                              "that no delivered entropy bytes define" % fail_at,
                              "replay": {"fn": "failing", "inst": inst.desc, "side": side, "x": x, "fail_at": fail_at}, "expected": "serialize() raises", "observed": o})
            if o["second_start"] == "ok" and o["second_scalar"] != x:
                acc.violation("C11/%s/retry-scalar" % F, {"what": "a start() that succeeds after a failed one does not take its scalar from the entropy bytes then delivered",
                              "replay": {"fn": "failing", "inst": inst.desc, "side": side, "x": x, "fail_at": fail_at}, "expected": x, "observed": o})
    return acc


PREBUILT = {}


def _prefork_task(task):
    """the instance was constructed in the parent process and is started here, in a forked child: the scalar must still be the one
    the supplied entropy function defines"""
    key, = task
    acc = Acc()
    name, side, x = key
    s, ent = PREBUILT[key]
    inst = T.get(name)
    m = T.observe(s.start)
    xo = T.read_scalar(inst, s) if m[0] == "ok" else None
    acc.n(states=1, transitions=2, traces=1)
    if m[0] != "ok" or xo != x or len(ent.calls) != 1:
        acc.violation("C11/%s/constructed-before-fork" % (inst.kind if inst.small else inst.name),
                      {"what": "an instance constructed in one process and started in a forked child does not take its scalar (only) from the supplied entropy function",
                       "replay": {"fn": "prefork", "inst": inst.desc, "side": side, "x": x}, "expected": [x, 1], "observed": [m[0], xo, len(ent.calls)]})
    acc.seen((name, side, "prefork"))
    return acc


def _copied_task(task):
    """an instance is duplicated (copy.copy / copy.deepcopy / pickle round trip) BEFORE start(): the duplicate, and the original after
    it, must still take their scalar from the supplied entropy function (its duplicate, for the deep copies) and from nothing else"""
    import copy, pickle
    name, side = task
    acc = Acc()
    inst, why = T.try_get(name)
    if inst is None:
        return acc
    x = 5 % inst.q
    fam = inst.kind if inst.small else inst.name
    for how, dup in (("copy.copy", copy.copy), ("copy.deepcopy", copy.deepcopy), ("pickle", lambda o: pickle.loads(pickle.dumps(o)))):
        ent = inst.entropy(x, extra=1)
        s = inst.new(side, b"pw", C.ids_for(side, 1), entropy=ent)
        d = T.observe(dup, s)
        acc.n(transitions=1)
        if d[0] != "ok":
            acc.note("%s: %s of an unstarted instance is not supported (%s)" % (fam, how, d[1]))
            continue
        for which, obj in (("duplicate", d[1]), ("original", s)):
            m = T.observe(obj.start)
            xo = T.read_scalar(inst, obj) if m[0] == "ok" else None
            acc.n(states=1, transitions=2)
            if m[0] != "ok" or xo != x:
                acc.violation("C11/%s/duplicated-before-start" % fam,
                              {"what": "after %s of an unstarted instance, the %s does not take its scalar from the supplied entropy function" % (how, which),
                               "replay": {"fn": "copied", "inst": inst.desc, "side": side, "how": how, "which": which}, "expected": x,
                               "observed": [m[0] if m[0] == "ok" else m, xo]})
        if how == "copy.copy" and len(ent.calls) != 2:
            acc.violation("C11/%s/duplicated-before-start" % fam,
                          {"what": "a shallow copy and its original together made %d draws from the shared supplied entropy function (2 expected)" % len(ent.calls),
                           "replay": {"fn": "copied", "inst": inst.desc, "side": side, "how": how, "which": "ledger"}, "expected": 2, "observed": len(ent.calls)})
        acc.seen((name, side, how))
    acc.n(traces=1)
    return acc


def run(tier, seed):
    acc = Acc()
    quick = tier == "quick"
    PREBUILT.clear()
    for name in ("T23", "ParamsEd25519", "Params1024"):
        inst, why = T.try_get(name)
        if inst is None:
            continue
        for side in "ABS":
            x = 5 % inst.q
            ent = inst.entropy(x)
            PREBUILT[(name, side, x)] = (inst.new(side, b"pw", C.ids_for(side, 1), entropy=ent), ent)
    tasks = []
    redraw = set(REDRAW_QUICK if quick else range(1, 257))
    deep = {3, 6, 7} if quick else set(range(1, 17))
    for n in range(1, 257):
        if n in deep:
            tasks.append(("width", (n, [0], 3)))
            tasks.append(("width", (n, [1, 7], 2 if not quick else 1)))
        elif n in redraw:
            tasks.append(("width", (n, [0], 2)))
            tasks.append(("width", (n, [1, 7], 1)))
        else:
            tasks.append(("width", (n, [0, 1, 7], 1)))
    wide = QUICK_WIDE if quick else sorted(set(list(range(257, 4097)) + QUICK_WIDE))
    for n in wide:
        tasks.append(("width", (n, [0, 7] if quick else [0], 1)))
    for name in T.SHIPPED + T.WIDE:
        tasks.append(("shipped", (name, seed)))
    for name in (["T11", "T23", "T29", "T263", "T1543", "E109"] if quick else C.SMALL_INT_ALL + ["E37", "E109", "E229"]):
        tasks.append(("toy", (name,)))
    for name in ["T23", "E37"] + T.SHIPPED:
        for side in "ABS":
            tasks.append(("ledger", (name, side)))
    for key in sorted(PREBUILT):
        tasks.append(("prefork", (key,)))
    for name in ("T23", "E37", "ParamsEd25519", "Params1024"):
        for side in "ABS":
            tasks.append(("copied", (name, side)))
    for name in ("Params1024", "Params2048", "Params3072"):
        for unit in (16, 8):
            tasks.append(("nb", (name, unit)))
    for name in ["T23", "ParamsEd25519", "Params1024"]:
        for side in "ABS":
            tasks.append(("falsy", (name, side)))
    for name in ["T23", "T263", "E37", "ParamsEd25519", "Params1024"] + ([] if quick else ["Params2048", "Params3072", "T1543"]):
        for side in "ABS":
            tasks.append(("failing", (name, side)))
    # the entropy ledger with the application calling the library in other ways (all-positional arguments, subclasses, ...)
    for st in ("positional", "password-keyword", "subclass", "subclass-init", "unbound-calls"):
        for name in ["T23", "ParamsEd25519", "Params1024"]:
            for side in "ABS":
                tasks.append(("style", st, ("ledger", (name, side))))
    w = {"width": 1, "shipped": 3000, "toy": 1500, "ledger": 2000, "nb": 2500, "falsy": 500, "prefork": 400, "copied": 400, "failing": 600, "style": 1200}
    def cost(t):
        if t[0] != "width":
            return w[t[0]]
        n, starts, depth = t[1]
        first = 256 if n < 256 else 65536
        return len(starts) * first * (128 * 256 if depth == 3 else 1) * (128 if depth >= 2 else 1) // 4000 + 1
    tasks.sort(key=lambda t: -cost(t))
    core.pmerge(_dispatch, tasks, acc)
    _long_chains(acc)
    return acc


def _dispatch(t):
    if t[0] == "style":
        with T.call_style(t[1]):
            a = _dispatch(t[2])
        return a.tag_env("style:" + t[1])
    return {"width": _width_task, "shipped": _shipped_task, "toy": _toy_scalar_task, "ledger": _ledger_task, "nb": _neighbours_task,
            "falsy": _falsy_task, "prefork": _prefork_task, "copied": _copied_task, "failing": _failing_task}[t[0]](t[1])


def replay(rec):
    r = T.unjson(rec["replay"])
    L = T.lib()
    fn = r["fn"]
    if fn == "randrange":
        sc = T.Script(list(r["answers"]), cap=1000)
        got = T.observe(L.util.unbiased_randrange, r["start"], r["stop"], sc)
        if isinstance(rec.get("expected"), list):
            return [got, sc.calls]
        return got[1] if got[0] == "ok" else ("another draw" if got[1] == "EntropyExhausted" else got)
    if fn == "randrange-count":
        return "re-run the check: counting oracle over the complete first draw"
    if fn == "failing":
        return failing_run(T.build_inst(r["inst"]), r["side"], r["x"], r["fail_at"])
    if fn == "ledger":
        return "re-run the check: ledger of entropy requests per call"
    if fn == "falsy":
        inst = T.build_inst(r["inst"])
        ent = FalsyScript(inst.ref.entropy_for_scalar(r["x"]))
        s = inst.new(r["side"], b"pw", C.ids_for(r["side"], 1), entropy=ent)
        m = T.observe(s.start)
        return [m[0], T.read_scalar(inst, s) if m[0] == "ok" else None, len(ent.calls)]
    if fn == "copied":
        import copy, pickle
        inst = T.build_inst(r["inst"])
        ent = inst.entropy(5 % inst.q, extra=1)
        s = inst.new(r["side"], b"pw", C.ids_for(r["side"], 1), entropy=ent)
        d = {"copy.copy": copy.copy, "copy.deepcopy": copy.deepcopy, "pickle": lambda o: pickle.loads(pickle.dumps(o))}[r["how"]](s)
        out = {}
        for which, obj in (("duplicate", d), ("original", s)):
            m = T.observe(obj.start)
            out[which] = [m[0] if m[0] == "ok" else m, T.read_scalar(inst, obj) if m[0] == "ok" else None]
        return len(ent.calls) if r["which"] == "ledger" else out[r["which"]]
    if fn in ("random_scalar", "session"):
        inst = T.build_inst(r["inst"])
        sc = T.Script(list(r["answers"]))
        if fn == "random_scalar":
            return [T.observe(inst.group.random_scalar, sc), sc.calls]
        s = inst.new(r["side"], b"pw", None, entropy=sc)
        m = T.observe(s.start)
        return [m[0], T.read_scalar(inst, s) if m[0] == "ok" else None]
    return "see observed"
