"""C15 - number, scalar and element encodings are fixed-width bijections.
Enumerates every (n, maxval) below a bound through the real codec functions and every
scalar/element of every small group through the group codecs; oracle int.to_bytes/from_bytes."""
from .. import target as T, core
from ..core import Acc
from . import common as C

LEVEL = "model_checking"
RULE = ("all (n, maxval) with 0 <= n <= maxval+3, maxval < bound, through number_to_bytes/bytes_to_number; width boundaries "
        "2^(8k)-1, 2^(8k), 2^(8k)+1 up to 3072 bits; every scalar and every element of each small group, edge scalars/elements "
        "of the shipped groups, through the group codecs; each element re-encoded after reaching it by other routes from a freshly decoded operand "
        "(scalarmult(1), add(self), scalarmult(q-1), add with Base, negate/subtract where offered; shipped groups: the first 16 scalars of the menu). distinct_nontrivial = distinct (width, leading-zero-bytes) classes "
        "of encodings seen that have at least one leading zero byte or sit on a width boundary")
ASSUMPTIONS = ["int.to_bytes/int.from_bytes are the specification of big-endian/little-endian encodings",
               "asserts enabled (no -O)"]
EXHAUSTIVE = True


def bounds(tier):
    return {"maxval_below": 1 << (9 if tier == "quick" else 12), "boundary_bits_up_to": 3072}


def _nb(maxval):
    return max(1, (maxval.bit_length() + 7) // 8)


def _range_task(task):
    lo, hi = task
    U = T.lib().util
    acc = Acc()
    n2b, b2n = U.number_to_bytes, U.bytes_to_number
    for maxval in range(lo, hi):
        size = _nb(maxval)
        for n in range(0, maxval + 1):
            exp = n.to_bytes(size, "big")
            got = T.observe(n2b, n, maxval)
            if got != ("ok", exp):
                acc.violation("C15/number_to_bytes", {"what": "number_to_bytes(n, maxval) is not the fixed-width big-endian encoding",
                              "replay": {"fn": "n2b", "n": n, "maxval": maxval}, "expected": exp, "observed": got})
            back = T.observe(b2n, exp)
            if back != ("ok", n):
                acc.violation("C15/bytes_to_number", {"what": "bytes_to_number does not invert number_to_bytes",
                              "replay": {"fn": "b2n", "b": exp}, "expected": n, "observed": back})
        for n in (maxval + 1, maxval + 2, maxval + 3):
            got = T.observe(n2b, n, maxval)
            if got[0] != "exc":
                acc.violation("C15/number_to_bytes-too-large", {"what": "number_to_bytes accepts n > maxval",
                              "replay": {"fn": "n2b", "n": n, "maxval": maxval}, "expected": "raises", "observed": got})
        acc.n(states=maxval + 4, transitions=2 * (maxval + 1) + 3, traces=1)
        acc.seen(("w", size))
    acc.sample({"call": "number_to_bytes", "n": hi - 2, "maxval": hi - 1, "result": (hi - 2).to_bytes(_nb(hi - 1), "big")})
    return acc


def _boundaries(acc):
    U = T.lib().util
    for k in range(1, 385):
        for maxval in ((1 << 8 * k) - 1, 1 << 8 * k, (1 << 8 * k) + 1, (1 << (8 * k - 1)), (1 << (8 * k - 3)) + 5):
            size = _nb(maxval)
            for n in {0, 1, 255, 256, maxval >> 8, maxval >> 1, maxval - 1, maxval, (1 << 8 * (k - 1)), (1 << 8 * (k - 1)) - 1}:
                if not 0 <= n <= maxval:
                    continue
                exp = n.to_bytes(size, "big")
                got = T.observe(U.number_to_bytes, n, maxval)
                if got != ("ok", exp):
                    acc.violation("C15/number_to_bytes", {"what": "number_to_bytes wrong at a width boundary",
                                  "replay": {"fn": "n2b", "n": n, "maxval": maxval}, "expected": exp, "observed": got})
                back = T.observe(U.bytes_to_number, exp)
                if back != ("ok", n):
                    acc.violation("C15/bytes_to_number", {"what": "bytes_to_number does not invert number_to_bytes",
                                  "replay": {"fn": "b2n", "b": exp}, "expected": n, "observed": back})
                acc.n(states=1, transitions=2)
                acc.seen(("b", size, size - _nb(n) if n else size))
            got = T.observe(U.number_to_bytes, maxval + 1, maxval)
            if got[0] != "exc":
                acc.violation("C15/number_to_bytes-too-large", {"what": "number_to_bytes accepts n > maxval",
                              "replay": {"fn": "n2b", "n": maxval + 1, "maxval": maxval}, "expected": "raises", "observed": got})
            acc.n(states=1, transitions=1)
    for k, exp in ((0, 1), (1, 1), (255, 1), (256, 2), (65535, 2), (65536, 3)):
        got = T.observe(U.size_bytes, k)
        if got != ("ok", exp):
            acc.violation("C15/size_bytes", {"what": "size_bytes wrong", "replay": {"fn": "size_bytes", "n": k},
                                             "expected": exp, "observed": got})


def _group_codecs(inst, scalars, acc, full):
    g, R = inst.group, inst.ref
    ssize, esize = R.ssize, R.esize
    if getattr(g, "scalar_size_bytes", None) != ssize or getattr(g, "element_size_bytes", None) != esize:
        acc.violation("C15/sizes/" + inst.name, {"what": "scalar_size_bytes/element_size_bytes differ from the released widths",
                      "replay": {"fn": "sizes", "inst": inst.desc}, "expected": [ssize, esize],
                      "observed": [getattr(g, "scalar_size_bytes", None), getattr(g, "element_size_bytes", None)]})
    seen_enc = {}
    nroutes = 0
    for i in scalars:
        exp = R.scalar_enc(i)
        got = T.observe(g.scalar_to_bytes, i)
        if got != ("ok", exp):
            acc.violation("C15/scalar_to_bytes/" + inst.kind, {"what": "scalar_to_bytes is not the fixed-width encoding",
                          "replay": {"fn": "s2b", "inst": inst.desc, "i": i}, "expected": exp, "observed": got})
        back = T.observe(g.bytes_to_scalar, exp)
        if back != ("ok", i):
            acc.violation("C15/bytes_to_scalar/" + inst.kind, {"what": "bytes_to_scalar does not invert scalar_to_bytes",
                          "replay": {"fn": "b2s", "inst": inst.desc, "b": exp}, "expected": i, "observed": back})
        # element i*Base
        e_ref = R.mul(R.base(), i)
        eb = R.enc(e_ref)
        el = T.observe(lambda: g.Base.scalarmult(i).to_bytes())
        if el != ("ok", eb):
            acc.violation("C15/to_bytes/" + inst.kind, {"what": "to_bytes of i*Base is not the fixed-width canonical encoding",
                          "replay": {"fn": "e2b", "inst": inst.desc, "i": i}, "expected": eb, "observed": el})
        if eb in seen_enc and seen_enc[eb] != i % R.q:
            acc.violation("C15/injective/" + inst.kind, {"what": "two elements share an encoding",
                          "replay": {"fn": "e2b", "inst": inst.desc, "i": i}, "expected": "distinct", "observed": [seen_enc[eb], i]})
        seen_enc[eb] = i % R.q
        ident = R.is_identity(e_ref)
        if not (ident and R.refuses_identity):
            rt = T.observe(lambda: g.bytes_to_element(eb).to_bytes())
            if rt != ("ok", eb):
                acc.violation("C15/bytes_to_element/" + inst.kind, {"what": "bytes_to_element does not invert to_bytes on a subgroup element",
                              "replay": {"fn": "b2e", "inst": inst.desc, "b": eb}, "expected": eb, "observed": rt})
            # the same element reached by other routes from a freshly DECODED operand (and from Base itself for i = 1) must encode
            # identically: encodings are a function of the element, not of how it was produced or represented
            D = T.observe(g.bytes_to_element, eb) if (full or nroutes < 16) else ("skip", None)
            nroutes += 1
            if D[0] == "ok":
                D = D[1]
                ops = [D] + ([g.Base] if i == 1 else [])
                for O in ops:
                    routes = [("scalarmult(1)", lambda: O.scalarmult(1), e_ref), ("add(self)", lambda: O.add(O), R.mul(e_ref, 2)),
                              ("scalarmult(q-1)", lambda: O.scalarmult(R.q - 1), R.neg(e_ref)), ("Base.add(e)", lambda: g.Base.add(O), R.add(R.base(), e_ref)),
                              ("e.add(Base)", lambda: O.add(g.Base), R.add(R.base(), e_ref))]
                    if hasattr(O, "negate"):
                        routes.append(("negate()", lambda: O.negate(), R.neg(e_ref)))
                        routes.append(("negate().negate()", lambda: O.negate().negate(), e_ref))
                    if hasattr(O, "subtract"):
                        routes.append(("subtract(Base)", lambda: O.subtract(g.Base), R.add(e_ref, R.neg(R.base()))))
                        routes.append(("Base.subtract(e)", lambda: g.Base.subtract(O), R.add(R.base(), R.neg(e_ref))))
                    for lab, f, want in routes:
                        gotr = T.observe(lambda: f().to_bytes())
                        acc.n(transitions=1)
                        if gotr != ("ok", R.enc(want)):
                            acc.violation("C15/to_bytes-by-route/" + inst.kind, {"what": "the encoding of an element depends on how it was produced: %s on a %s operand" % (lab, "decoded" if O is D else "Base"),
                                          "replay": {"fn": "route", "inst": inst.desc, "i": i, "route": lab, "operand": "decoded" if O is D else "Base"},
                                          "expected": R.enc(want), "observed": gotr})
        acc.n(states=2, transitions=4)
        acc.inst(inst.name, scalars=1)
        acc.seen(("g", inst.kind, ssize - _nb(i) if i else ssize))
    if full and len(seen_enc) != R.q:
        acc.violation("C15/injective/" + inst.kind, {"what": "element encodings of the subgroup are not pairwise distinct",
                      "replay": {"fn": "sizes", "inst": inst.desc}, "expected": R.q, "observed": len(seen_enc)})
    acc.n(traces=1)
    acc.sample({"inst": inst.name, "scalar": scalars[-1], "scalar_to_bytes": R.scalar_enc(scalars[-1]),
                "element": R.enc(R.mul(R.base(), scalars[-1]))})


def mutable_carrier_run(inst, k1, k2, kind):
    """decode k1*G from a mutable buffer (if the decoder takes one), let the caller reuse the buffer for k2*G, then encode again"""
    R, g = inst.ref, inst.group
    e1, e2 = R.enc(R.mul(R.base(), k1)), R.enc(R.mul(R.base(), k2))
    buf = bytearray(e1)
    carrier = buf if kind == "bytearray" else memoryview(buf)
    d = T.observe(g.bytes_to_element, carrier)
    if d[0] != "ok":
        return ("refused", d[1])
    first = T.observe(d[1].to_bytes)
    buf[:] = e2
    second = T.observe(d[1].to_bytes)
    third = T.observe(lambda: g.bytes_to_element(e1).to_bytes())
    same = T.observe(lambda: d[1] == g.bytes_to_element(e1))
    return ("decoded", first, second, third, same, [type(x[1]).__name__ for x in (first, second) if x[0] == "ok"])


def _mutable_carriers(inst, acc):
    """an element decoded from a caller-owned buffer must not depend on what the caller does with the buffer afterwards"""
    R = inst.ref
    q = inst.q
    e1 = R.enc(R.mul(R.base(), 2 % q))
    for k1, k2 in ((2 % q, 3 % q), (1, q - 1)):
        if k1 == k2 or 0 in (k1, k2):
            continue
        for kind in ("bytearray", "memoryview"):
            got = mutable_carrier_run(inst, k1, k2, kind)
            acc.n(states=1, transitions=5)
            acc.seen(("mutable-carrier", inst.name if not inst.small else inst.kind, kind, got[0]))
            if got[0] == "refused":
                continue
            e = R.enc(R.mul(R.base(), k1))
            want = ("decoded", ("ok", e), ("ok", e), ("ok", e), ("ok", True), ["bytes", "bytes"])
            if got != want:
                acc.violation("C15/%s/element-aliases-caller-buffer" % (inst.kind if inst.small else inst.name),
                              {"what": "an element decoded from a %s changes its encoding (or its type / equality) when the caller reuses the buffer" % kind,
                               "replay": {"fn": "mutable-carrier", "name": inst.name, "k1": k1, "k2": k2, "kind": kind}, "expected": want, "observed": got})


def _group_task(task):
    name, seed = task
    acc = Acc()
    try:
        inst = T.get_group(name)
    except T.HarnessError as e:
        acc.degrade("%s unavailable: %s" % (name, e))
        return acc
    except Exception as e:
        if name in T.INT_TOYS:
            acc.violation("C15/int/group-unusable", {"what": "IntegerGroup over a valid (p, q, g) cannot be constructed: %s: %s" % (type(e).__name__, e),
                          "replay": {"fn": "group", "name": name}, "expected": "group", "observed": ("exc", type(e).__name__)})
        else:
            acc.degrade("%s unavailable: %s: %s" % (name, type(e).__name__, e))
        return acc
    _mutable_carriers(inst, acc)
    if inst.small:
        _group_codecs(inst, list(range(inst.q)), acc, True)
    else:
        sc = C.edge_scalars(inst.q, seed, 2)
        for x in C.pattern_scalars(inst.q, 1 if inst.ref.esize <= 128 else 0):
            if x not in sc:
                sc.append(x)
        # multiples of Base whose ENCODING has a distinguished byte at every position / shares leading bytes with the modulus
        pm = C.element_pattern_multiples(inst.ref, 1 if inst.ref.esize <= 128 else 0)
        for k in sorted(set(pm.values())):
            if k not in sc:
                sc.append(k)
        acc.extra.setdefault("element_pattern_classes", {})[name] = len(pm)
        _group_codecs(inst, sc, acc, False)
    return acc


def run(tier, seed):
    acc = Acc()
    top = 1 << (9 if tier == "quick" else 12)
    # balance: cost ~ maxval^2
    cuts, n = [0], 64 if tier == "thorough" else 16
    for i in range(1, n):
        cuts.append(int(top * (i / n) ** 0.5))
    cuts.append(top)
    tasks = [(cuts[i], cuts[i + 1]) for i in range(n) if cuts[i] < cuts[i + 1]]
    core.pmerge(_range_task, tasks, acc)
    _boundaries(acc)
    names = (C.SMALL_INT_QUICK + C.SMALL_ED_QUICK if tier == "quick" else C.SMALL_INT_ALL + C.SMALL_ED_ALL) + T.SHIPPED + T.WIDE
    core.pmerge(_group_task, [(n, seed) for n in names], acc)
    return acc


def replay(rec):
    r = T.unjson(rec["replay"])
    L = T.lib()
    fn = r["fn"]
    if fn == "group":
        return T.observe(lambda: T.get_group(r["name"]) and "group")
    if fn == "mutable-carrier":
        return mutable_carrier_run(T.get_group(r["name"]), r["k1"], r["k2"], r["kind"])
    if fn == "n2b":
        return T.observe(L.util.number_to_bytes, r["n"], r["maxval"])
    if fn == "b2n":
        return T.observe(L.util.bytes_to_number, r["b"])
    if fn == "size_bytes":
        return T.observe(L.util.size_bytes, r["n"])
    inst = T.build_inst(r["inst"])
    g = inst.group
    if fn == "sizes":
        return [getattr(g, "scalar_size_bytes", None), getattr(g, "element_size_bytes", None)]
    if fn == "s2b":
        return T.observe(g.scalar_to_bytes, r["i"])
    if fn == "b2s":
        return T.observe(g.bytes_to_scalar, r["b"])
    if fn == "e2b":
        return T.observe(lambda: g.Base.scalarmult(r["i"]).to_bytes())
    if fn == "b2e":
        return T.observe(lambda: g.bytes_to_element(r["b"]).to_bytes())
    if fn == "route":
        R = inst.ref
        O = g.Base if r["operand"] == "Base" else g.bytes_to_element(R.enc(R.mul(R.base(), r["i"])))
        f = {"scalarmult(1)": lambda: O.scalarmult(1), "add(self)": lambda: O.add(O), "scalarmult(q-1)": lambda: O.scalarmult(R.q - 1),
             "Base.add(e)": lambda: g.Base.add(O), "e.add(Base)": lambda: O.add(g.Base), "negate()": lambda: O.negate(),
             "negate().negate()": lambda: O.negate().negate(), "subtract(Base)": lambda: O.subtract(g.Base), "Base.subtract(e)": lambda: g.Base.subtract(O)}[r["route"]]
        return T.observe(lambda: f().to_bytes())
