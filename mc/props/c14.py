"""C14 - password-to-scalar and seed-to-element derivations are exact and in-group.

Every byte string of length <= 2 as password and as seed on small groups (real code),
length classes on the shipped groups; oracle: independent HKDF + published constructions."""
import itertools
from .. import target as T, core
from ..core import Acc
from ..ref import golden
from ..ref.intgroup import Degenerate
from . import common as C

LEVEL = "model_checking"
RULE = ("password_to_scalar(pw) and arbitrary_element(seed) for EVERY byte string of length <= 2 (65 793) on small integer groups, and on toy "
        "curves every string of length <= 1 plus a 768-string slice of length 2 (quick) / all of length <= 2 (thorough); shipped groups: all "
        "strings of length <= 1 plus lengths {31,32,33,55,56,63,64,65,119,120,127,128,129,1000}; each call made twice (determinism). oracle: "
        "reference HKDF (hmac/hashlib) + published constructions; result in [0,q) / strict member of the subgroup, not the identity; "
        "M,N,S = frozen constants. Seeds for which the published construction itself yields 0 or the identity on a toy integer group are "
        "counted as protocol_degenerate (only determinism and 'no non-member returned' are demanded). states = distinct inputs; "
        "transitions = derivation calls. distinct_nontrivial = distinct (instance, function, input length, result class) combinations")
ASSUMPTIONS = ["mc/ref/hkdf.py (self-tested on RFC 5869 vectors) and mc/ref constructions are the published definition"]
EXHAUSTIVE = True
LENGTHS = [31, 32, 33, 55, 56, 63, 64, 65, 119, 120, 127, 128, 129, 1000]


def bounds(tier):
    return {"all_strings_up_to": 2, "int_toys": ["T23", "T29", "T509"] if tier == "quick" else C.SMALL_INT_ALL,
            "ed_toys": ["E37", "E109"] if tier == "quick" else C.SMALL_ED_ALL, "shipped_lengths": LENGTHS}


def fam(inst):
    return inst.kind if inst.small else inst.name


def check_pw(inst, pw, acc):
    R, g = inst.ref, inst.group
    want = R.pw_scalar(pw)
    a = T.observe(g.password_to_scalar, pw)
    b = T.observe(g.password_to_scalar, pw)
    acc.n(states=1, transitions=2)
    if a != ("ok", want) or a != b:
        acc.violation("C14/%s/password_to_scalar" % fam(inst), {"what": "password_to_scalar differs from int(HKDF(pw, info='SPAKE2 pw', scalar_size+16)) mod q (or is not deterministic)",
                      "replay": {"fn": "pw", "inst": inst.desc, "arg": pw}, "expected": want, "observed": [a, b]})
    elif not (0 <= a[1] < R.q):
        acc.violation("C14/%s/password_to_scalar-range" % fam(inst), {"what": "password scalar outside [0,q)", "replay": {"fn": "pw", "inst": inst.desc, "arg": pw},
                      "expected": "[0,q)", "observed": a})
    acc.seen((inst.name, "pw", len(pw), want == 0))


def check_seed(inst, seed, acc):
    R, g = inst.ref, inst.group
    a = T.observe(lambda: g.arbitrary_element(seed).to_bytes())
    b = T.observe(lambda: g.arbitrary_element(seed).to_bytes())
    acc.n(states=1, transitions=2)
    rep = {"fn": "seed", "inst": inst.desc, "arg": seed}
    if a != b:
        acc.violation("C14/%s/arbitrary_element-not-deterministic" % fam(inst), {"what": "arbitrary_element is not deterministic", "replay": rep, "expected": a, "observed": b})
    try:
        want = R.enc(R.arbitrary(seed))
    except Degenerate:
        acc.degenerate["seed-construction-degenerate"] += 1
        acc.seen((inst.name, "seed", len(seed), "degenerate"))
        if a[0] == "ok" and R.dec_strict(a[1]) is None and not (R.kind == "int" and a[1] == R.enc(1)):
            acc.violation("C14/%s/arbitrary_element-non-member" % fam(inst), {"what": "arbitrary_element returns a non-member", "replay": rep, "expected": "member or exception", "observed": a})
        return
    if a != ("ok", want):
        acc.violation("C14/%s/arbitrary_element" % fam(inst), {"what": "arbitrary_element differs from the published construction", "replay": rep, "expected": want, "observed": a})
        return
    P = R.dec_strict(a[1])
    if P is None or R.is_identity(P):
        acc.violation("C14/%s/arbitrary_element-not-in-subgroup" % fam(inst), {"what": "arbitrary_element is not a non-identity member of the prime-order subgroup",
                      "replay": rep, "expected": "member", "observed": a})
    acc.seen((inst.name, "seed", len(seed), "member"))


def strings(maxlen, first=None):
    for n in range(maxlen + 1):
        for t in itertools.product(range(256), repeat=n):
            yield bytes(t)


def _small_task(task):
    name, what, firsts = task
    acc = Acc()
    inst, why = T.try_get(name)
    if inst is None:
        acc.degrade("%s unavailable: %s" % (name, why))
        return acc
    f = _fn(what)
    n = 0
    for first in firsts:
        if first is None:
            for s in (b"",):
                f(inst, s, acc)
                n += 1
            continue
        f(inst, bytes([first]), acc)
        n += 1
        for b in range(256):
            f(inst, bytes([first, b]), acc)
            n += 1
    acc.n(traces=1)
    acc.inst(name, **{what: n})
    if firsts and firsts[-1] is not None:
        s = bytes([firsts[-1], 255])
        acc.sample({"inst": name, "functions": what, "input": s, "reference_password_scalar": inst.ref.pw_scalar(s)})
    return acc


def _fn(what):
    """'both': the same string as password, as seed, and as password again, in one process (the two derivations must not
    influence each other whatever was computed before)"""
    if what == "pw":
        return check_pw
    if what == "seed":
        return check_seed

    def both(inst, s, acc):
        check_pw(inst, s, acc)
        check_seed(inst, s, acc)
        check_pw(inst, s, acc)
    return both


def _slice_task(task):
    name, what, items = task
    acc = Acc()
    inst, why = T.try_get(name)
    if inst is None:
        acc.degrade("%s unavailable: %s" % (name, why))
        return acc
    f = _fn(what)
    for s in items:
        f(inst, s, acc)
    acc.n(traces=1)
    acc.inst(name, **{what: len(items)})
    return acc


def rare_derivation_inputs():
    """frozen passwords / seeds whose HKDF expansion has leading/trailing 00 or ff octets (for every expansion length in use), and
    Ed25519 seeds whose try-and-increment search carries across an octet boundary (tools/make_rare_derivations.py)"""
    import json, os
    p = os.path.join(os.path.dirname(os.path.dirname(os.path.abspath(__file__))), "ref", "rare_derivations.json")
    try:
        d = json.load(open(p))
    except Exception:
        return []
    out = []
    for kind in ("pw", "seed"):
        for n, classes in sorted(d.get(kind, {}).items()):
            for c, s in sorted(classes.items()):
                if s.encode() not in out:
                    out.append(s.encode())
    for c, s in sorted(d.get("ed_carry", {}).items()):
        if s.encode() not in out:
            out.append(s.encode())
    # Ed25519 seeds whose search takes exactly k increments, k = 0..20 (tools/make_steps.py): the alphabet "length of the search"
    for c, s in sorted(d.get("ed_steps", {}).items(), key=lambda kv: int(kv[0])):
        if s.encode() not in out:
            out.append(s.encode())
    return out


def _constants(acc):
    g = golden.load()
    for name, mns in g["MNS"].items():
        inst, why = T.try_get(name)
        if inst is None:
            acc.degrade("%s unavailable: %s" % (name, why))
            continue
        P = inst.params
        for k, seed in zip("MNS", (b"M", b"N", b"symmetric")):
            got = T.observe(lambda: getattr(P, k).to_bytes().hex())
            viaseed = T.observe(lambda: inst.group.arbitrary_element(seed).to_bytes().hex())
            acc.n(states=1, transitions=2)
            if got != ("ok", mns[k]) or viaseed != ("ok", mns[k]):
                acc.violation("C14/%s/constant-%s" % (name, k), {"what": "%s of %s is not the released constant (seed %r)" % (k, name, seed),
                              "replay": {"fn": "const", "inst": inst.desc, "which": k}, "expected": mns[k], "observed": [got, viaseed]})
            acc.seen((name, "const", k))
    for n, pwh, sh in g["published"]["p2s"]:
        inst, why = T.try_get(n)
        if inst is None:
            continue
        got = T.observe(lambda: inst.group.scalar_to_bytes(inst.group.password_to_scalar(bytes.fromhex(pwh))).hex())
        acc.n(states=1, transitions=1)
        if got != ("ok", sh):
            acc.violation("C14/%s/published-vector" % n, {"what": "published password-to-scalar vector not reproduced", "replay": {"fn": "pw", "inst": inst.desc, "arg": bytes.fromhex(pwh)},
                          "expected": sh, "observed": got})


def run(tier, seed):
    acc = Acc()
    quick = tier == "quick"
    b = bounds(tier)
    tasks = []
    allfirst = [None] + list(range(256))
    for name in b["int_toys"]:
        for ch in core.chunks(allfirst, 16):
            tasks.append(("small", (name, "both", ch)))
    for name in b["ed_toys"]:
        for ch in core.chunks(allfirst, 8):
            tasks.append(("small", (name, "pw", ch)))
        if quick:
            items = [b""] + [bytes([i]) for i in range(256)] + [bytes([f, i]) for f in (0, 0x4d, 0xff) for i in range(256)]
            for ch in core.chunks(items, 16):
                tasks.append(("slice", (name, "both", ch)))
        else:
            for ch in core.chunks(allfirst, 64):
                tasks.append(("small", (name, "both", ch)))
    items = [b""] + [bytes([i]) for i in range(256)] + [bytes([(7 * n + i) % 256 for i in range(n)]) for n in LENGTHS] + \
            [b"M", b"N", b"symmetric", b"Symmetric", b"M\x00", b"password", b"\x00" * 64, b"\xff" * 64]
    rare = rare_derivation_inputs()
    for name in (b["int_toys"][:2] + b["ed_toys"][:1] + T.SHIPPED):
        for ch in core.chunks(rare, 12 if name in T.SHIPPED else 200):
            tasks.append(("slice", (name, "both", ch)))
    bnd = [b for b in C.boundary_strings() if b not in items]
    for name in T.SHIPPED:
        if not quick or name in ("ParamsEd25519", "Params1024"):
            for ch in core.chunks(bnd, 12):
                tasks.append(("slice", (name, "both", ch)))
        sub = items if (not quick or name == "ParamsEd25519") else items[:1] + items[1:257:4] + items[257:]
        for ch in core.chunks([i for i in items if i not in sub], 16):
            tasks.append(("slice", (name, "pw", ch)))
        for ch in core.chunks(sub, 24):
            tasks.append(("slice", (name, "both", ch)))
    tasks.sort(key=lambda t: -(T.hint(t[1][0]).ref.esize * (3 if t[1][1] != "pw" else 1) * (1 if t[0] == "small" else 40)))
    core.pmerge(_dispatch, tasks, acc)
    _constants(acc)
    return acc


def _dispatch(t):
    return _small_task(t[1]) if t[0] == "small" else _slice_task(t[1])


def replay(rec):
    r = T.unjson(rec["replay"])
    inst = T.build_inst(r["inst"])
    g = inst.group
    if r["fn"] == "pw":
        return [T.observe(g.password_to_scalar, r["arg"])] * 2
    if r["fn"] == "seed":
        return T.observe(lambda: g.arbitrary_element(r["arg"]).to_bytes())
    return T.observe(lambda: getattr(inst.params, r["which"]).to_bytes().hex())
