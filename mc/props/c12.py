"""C12 - Ed25519 point addition and doubling compute the Edwards group law.

The library's own formulas (a second copy of ed25519_basic.py re-parametrised to toy
curves) on ALL pairs of curve points in ALL projective scalings; the dedicated addition on
all pairs outside its exceptional set; every dedicated addition the fast ladder performs.
Real field: complete product of constructed classes (torsion, +-B, +-2B, edge multiples)."""
import itertools, random
from .. import target as T, core
from ..core import Acc
from ..ref.edwards import RefEdwards, TOY_CURVES
from . import common as C

LEVEL = "model_checking"
RULE = ("toy curves (library code, patched module globals): every ordered pair of curve points (all 8L of them: identity, small-order, "
        "subgroup, mixed) x every pair of non-zero scalings (l1,l2) in GF(Q)*^2 through add_elements; every point x every scaling through "
        "double_element; oracle: affine Edwards law, Z3 != 0, T3*Z3 = X3*Y3. _add_elements_nonunfied: every pair whose difference is not of "
        "order 1,2,4 must give the sum. scalarmult_element(P,n) for every subgroup point P and 0 <= n < L: equals n-fold addition and every "
        "dedicated addition it performs has operands outside the exceptional set; scalarmult_element_safe_slow for every point and "
        "0 <= n <= 8L. real field: {8 torsion points, +-B, +-2B, kB for edge k} squared x scalings {1,2,Q-1,filler}. states = (P1,P2) pairs; "
        "transitions = formula evaluations. distinct_nontrivial = distinct (curve, function, order(P1), order(P2), relation) classes, "
        "relation in {equal, opposite, other}")
ASSUMPTIONS = ["complete for the small fields listed; over GF(2^255-19) only the constructed classes are executed - the formulas are "
               "polynomial maps generic in Q and d, so a wrong formula is a non-zero polynomial that cannot vanish on all inputs of four different toy fields",
               "toy copies are valid only while the functions read Q, d through module globals (trust gate on inlined constants)"]
EXHAUSTIVE = True


def bounds(tier):
    return {"toy_curves_full": ["E29", "E37", "E53"] if tier == "quick" else ["E29", "E37", "E53", "E109"],
            "toy_curves_partial_scalings": ["E109"] if tier == "quick" else ["E157", "E229"], "ladder": ["E29", "E37", "E109"] if tier == "quick" else C.SMALL_ED_ALL}


def ext(P, lam, Q):
    x, y = P
    return (x * lam % Q, y * lam % Q, lam % Q, x * y * lam % Q)


def aff_of(pt, Q):
    X, Y, Z, Tt = pt
    if Z % Q == 0:
        return None
    zi = pow(Z, -1, Q)
    if (Tt * Z - X * Y) % Q != 0:
        return "bad-T"
    return (X * zi % Q, Y * zi % Q)


def relation(R, P1, P2):
    if P1 == P2:
        return "equal"
    if P1 == R.neg(P2):
        return "opposite"
    return "other"


def _pairs_task(task):
    name, i_lo, i_hi, lam_mode = task
    acc = Acc()
    inst, why = T.try_get(name)
    if inst is None:
        acc.degrade("%s unavailable: %s" % (name, why))
        return acc
    m, R = inst.mod, inst.ref
    need = ["add_elements", "double_element", "_add_elements_nonunfied"]
    if any(not hasattr(m, n) for n in need):
        acc.degrade("internal names missing in ed25519_basic: %s" % [n for n in need if not hasattr(m, n)])
        return acc
    Q = R.Q
    pts = R.points()
    orders = {P: R.order_of(P) for P in pts}
    exceptional = {P for P in pts if orders[P] in (1, 2, 4)}
    lams = list(range(1, Q))
    if lam_mode == "full":
        lam_pairs = list(itertools.product(lams, repeat=2))
    else:
        few = [1, 2, Q - 1]
        lam_pairs = [(a, b) for a in lams for b in few] + [(b, a) for a in lams for b in few]
    add, dbl, nonu = m.add_elements, m.double_element, m._add_elements_nonunfied
    for P1 in pts[i_lo:i_hi]:
        # doubling: every scaling
        want2 = R.add(P1, P1)
        for l1 in lams:
            got = aff_of(dbl(ext(P1, l1, Q)), Q)
            acc.n(transitions=1)
            if got != want2:
                acc.violation("C12/%s/double_element" % ("toy" if inst.small else "ed25519"),
                              {"what": "double_element does not return a valid representation of 2P", "replay": {"fn": "dbl", "inst": inst.desc, "P": list(P1), "l": l1},
                               "expected": list(want2), "observed": got})
        acc.seen((name, "dbl", orders[P1]))
        for P2 in pts:
            want = R.add(P1, P2)
            rel = relation(R, P1, P2)
            diff_exceptional = R.add(P1, R.neg(P2)) in exceptional
            bad_add = bad_nonu = None
            for l1, l2 in lam_pairs:
                e1, e2 = ext(P1, l1, Q), ext(P2, l2, Q)
                got = aff_of(add(e1, e2), Q)
                if got != want and bad_add is None:
                    bad_add = (l1, l2, got)
                if not diff_exceptional:
                    g2 = aff_of(nonu(e1, e2), Q)
                    if g2 != want and bad_nonu is None:
                        bad_nonu = (l1, l2, g2)
            k = len(lam_pairs)
            acc.n(states=1, transitions=k * (1 if diff_exceptional else 2))
            if bad_add:
                acc.violation("C12/toy/add_elements/%s" % rel, {"what": "add_elements does not return a valid representation of P1+P2 (%s operands)" % rel,
                              "replay": {"fn": "add", "inst": inst.desc, "P1": list(P1), "P2": list(P2), "l1": bad_add[0], "l2": bad_add[1]},
                              "expected": list(want), "observed": bad_add[2]})
            if bad_nonu:
                acc.violation("C12/toy/_add_elements_nonunfied", {"what": "the dedicated addition is wrong although the difference of its operands is not of order 1, 2 or 4",
                              "replay": {"fn": "nonu", "inst": inst.desc, "P1": list(P1), "P2": list(P2), "l1": bad_nonu[0], "l2": bad_nonu[1]},
                              "expected": list(want), "observed": bad_nonu[2]})
            acc.seen((name, "add", orders[P1], orders[P2], rel))
    acc.n(traces=1)
    acc.inst(name, points=i_hi - i_lo)
    P1 = pts[i_lo]
    acc.sample({"curve": name, "P1": list(P1), "P2": list(pts[-1]), "scalings": list(lam_pairs[-1]), "affine_sum": list(R.add(P1, pts[-1]))})
    return acc


def _ladder_task(name):
    acc = Acc()
    inst, why = T.try_get(name)
    if inst is None:
        acc.degrade("%s unavailable: %s" % (name, why))
        return acc
    m, R = inst.mod, inst.ref
    need = ["scalarmult_element", "scalarmult_element_safe_slow", "_add_elements_nonunfied"]
    if any(not hasattr(m, n) for n in need):
        acc.degrade("internal names missing in ed25519_basic: %s" % [n for n in need if not hasattr(m, n)])
        return acc
    Q, L = R.Q, R.L
    pts = R.points()
    exceptional = {P for P in pts if R.order_of(P) in (1, 2, 4)}
    calls = []
    orig = m._add_elements_nonunfied

    def spy(p1, p2):
        calls.append((p1, p2))
        return orig(p1, p2)

    m._add_elements_nonunfied = spy
    try:
        for P in R.elements()[1:]:
            for lam in (1, 2, Q - 1):
                for n in range(0, L):
                    del calls[:]
                    got = aff_of(m.scalarmult_element(ext(P, lam, Q), n), Q)
                    want = R.mul_raw(P, n)
                    acc.n(states=1, transitions=1 + len(calls))
                    if got != want:
                        acc.violation("C12/toy/scalarmult_element", {"what": "the fast ladder differs from n-fold addition for a prime-order point and 0 <= n < L",
                                      "replay": {"fn": "ladder", "inst": inst.desc, "P": list(P), "l": lam, "n": n}, "expected": list(want), "observed": got})
                    for (p1, p2) in calls:
                        a1, a2 = aff_of(p1, Q), aff_of(p2, Q)
                        if a1 in (None, "bad-T") or a2 in (None, "bad-T") or R.add(a1, R.neg(a2)) in exceptional:
                            acc.violation("C12/toy/ladder-hits-exceptional-case", {"what": "scalarmult_element feeds the dedicated addition operands whose difference has order 1, 2 or 4",
                                          "replay": {"fn": "ladder", "inst": inst.desc, "P": list(P), "l": lam, "n": n}, "expected": "never", "observed": [a1, a2]})
            acc.seen((name, "ladder", R.dlog(P) % 5))
    finally:
        m._add_elements_nonunfied = orig
    for P in pts:
        for n in list(range(0, 8 * L + 1)):
            got = aff_of(m.scalarmult_element_safe_slow(ext(P, 1 + (n % (Q - 1)), Q), n), Q)
            want = R.mul_raw(P, n)
            acc.n(states=1, transitions=1)
            if got != want:
                acc.violation("C12/toy/scalarmult_element_safe_slow", {"what": "the safe ladder differs from n-fold addition",
                              "replay": {"fn": "slow", "inst": inst.desc, "P": list(P), "l": 1 + (n % (Q - 1)), "n": n}, "expected": list(want), "observed": got})
        acc.seen((name, "slow", R.order_of(P)))
    acc.n(traces=1)
    return acc


def _real_task(task):
    lo, hi, seed = task
    acc = Acc()
    inst, why = T.try_get("ParamsEd25519")
    if inst is None:
        acc.degrade("ParamsEd25519 unavailable: %s" % why)
        return acc
    m, R = inst.mod, inst.ref
    Q, L = R.Q, R.L
    rnd = random.Random(seed)
    B = R.B
    pts = list(R.torsion()) + [B, R.neg(B), R.add(B, B), R.neg(R.add(B, B))]
    for k in C.edge_scalars(L, seed, 1)[2:8]:
        pts.append(R.mul_raw(B, k))
    tors = R.torsion()
    pts += [R.add(B, tors[3]), R.add(R.mul_raw(B, 5), tors[5])]
    lams = [1, 2, Q - 1, rnd.randrange(1, Q)]
    exceptional = {P for P in tors if R.order_of(P) in (1, 2, 4)}
    for P1 in pts[lo:hi]:
        for l1 in lams:
            got = aff_of(m.double_element(ext(P1, l1, Q)), Q)
            acc.n(transitions=1)
            if got != R.add(P1, P1):
                acc.violation("C12/ed25519/double_element", {"what": "double_element wrong over GF(2^255-19)", "replay": {"fn": "dbl", "inst": inst.desc, "P": list(P1), "l": l1},
                              "expected": list(R.add(P1, P1)), "observed": got})
        for P2 in pts:
            want = R.add(P1, P2)
            rel = relation(R, P1, P2)
            dex = R.add(P1, R.neg(P2)) in exceptional
            for l1, l2 in itertools.product(lams, repeat=2):
                e1, e2 = ext(P1, l1, Q), ext(P2, l2, Q)
                got = aff_of(m.add_elements(e1, e2), Q)
                acc.n(transitions=1)
                if got != want:
                    acc.violation("C12/ed25519/add_elements/%s" % rel, {"what": "add_elements wrong over GF(2^255-19) (%s operands)" % rel,
                                  "replay": {"fn": "add", "inst": inst.desc, "P1": list(P1), "P2": list(P2), "l1": l1, "l2": l2}, "expected": list(want), "observed": got})
                if not dex:
                    g2 = aff_of(m._add_elements_nonunfied(e1, e2), Q)
                    acc.n(transitions=1)
                    if g2 != want:
                        acc.violation("C12/ed25519/_add_elements_nonunfied", {"what": "dedicated addition wrong over GF(2^255-19) outside its exceptional set",
                                      "replay": {"fn": "nonu", "inst": inst.desc, "P1": list(P1), "P2": list(P2), "l1": l1, "l2": l2}, "expected": list(want), "observed": g2})
            acc.n(states=1)
            acc.seen(("ed25519", "add", R.order_of(P1) if P1 in tors else "L*", R.order_of(P2) if P2 in tors else "L*", rel))
    acc.n(traces=1)
    return acc


# ---------------------------------------------------------------------------
# real field: projective scalings chosen so that a NAMED INTERMEDIATE of the published formulas takes a boundary value

def _intermediates(which, p1, p2, Q, d):
    """intermediates of the published EFD formulas (add-2008-hwcd-3 = unified, add-2008-hwcd-4 = dedicated), computed by the
    harness from the published description - every one of them is linear in a scaling of p1"""
    (X1, Y1, Z1, T1), (X2, Y2, Z2, T2) = p1, p2
    if which == "add_elements":
        A = (Y1 - X1) * (Y2 - X2) % Q
        B = (Y1 + X1) * (Y2 + X2) % Q
        Cc = T1 * 2 * d * T2 % Q
        D = Z1 * 2 * Z2 % Q
        return {"A": A, "B": B, "C": Cc, "D": D, "E": (B - A) % Q, "F": (D - Cc) % Q, "G": (D + Cc) % Q, "H": (B + A) % Q,
                "T1*T2": T1 * T2 % Q, "X1": X1 % Q, "Y1": Y1 % Q, "Z1": Z1 % Q, "T1": T1 % Q}
    A = (Y1 - X1) * (Y2 + X2) % Q
    B = (Y1 + X1) * (Y2 - X2) % Q
    Cc = Z1 * 2 * T2 % Q
    D = T1 * 2 * Z2 % Q
    return {"A": A, "B": B, "C": Cc, "D": D, "E": (D + Cc) % Q, "F": (B - A) % Q, "G": (B + A) % Q, "H": (D - Cc) % Q,
            "X1": X1 % Q, "Y1": Y1 % Q, "Z1": Z1 % Q, "T1": T1 % Q}


TARGETS = [1, 2, 3, (1 << 32), (1 << 63), (1 << 64) - 1, 1 << 64, (1 << 64) + 1, 3 << 64, 0xffff << 64, (1 << 127), (1 << 128) - 1, 1 << 128,
           (1 << 128) + 1, 5 << 128, 1 << 192, (1 << 192) - 1, 7 << 192, (1 << 254), (1 << 255) - 20]


def _boundary_task(task):
    which, pair_index = task
    acc = Acc()
    inst, why = T.try_get("ParamsEd25519")
    if inst is None:
        acc.degrade("ParamsEd25519 unavailable: %s" % why)
        return acc
    m, R = inst.mod, inst.ref
    fn = getattr(m, which, None)
    if fn is None:
        acc.degrade("internal name missing in ed25519_basic: %s" % which)
        return acc
    Q, d, L = R.Q, R.d, R.L
    B = R.B
    mul = lambda k: R.mul_raw(B, k % L)
    pairs = [(mul(2), mul(5)), (mul(1), mul(2)), (mul(7), mul(3)), (mul(L - 1), mul(4)), (mul(0x1234567), mul(23773)), (mul(1031), mul(94)),
             (mul(1), mul(1)), (mul(3), mul(L - 3))]
    P1, P2 = pairs[pair_index]
    same_or_opp = P1 == P2 or P1 == R.neg(P2)
    if which == "_add_elements_nonunfied" and (same_or_opp or R.order_of(R.add(P1, R.neg(P2))) in (1, 2, 4)):
        return acc
    want = R.add(P1, P2)
    n = 0
    for role in (0, 1):
        a, b = (P1, P2) if role == 0 else (P2, P1)
        base = _intermediates(which, ext(a, 1, Q), ext(b, 1, Q), Q, d)
        for lam2 in (1, 2, Q - 1):
            for iname, v0 in sorted(base.items()):
                v0 = v0 * (lam2 if iname not in ("X1", "Y1", "Z1", "T1") else 1) % Q
                if v0 == 0:
                    continue
                inv = pow(v0, -1, Q)
                for t in TARGETS:
                    lam1 = t % Q * inv % Q
                    if lam1 == 0:
                        continue
                    got = aff_of(fn(ext(a, lam1, Q), ext(b, lam2, Q)), Q)
                    n += 1
                    if got != want:
                        acc.violation("C12/ed25519/%s/intermediate-boundary" % which,
                                      {"what": "%s is wrong over GF(2^255-19) for a projective scaling that makes the intermediate %s equal to %s" % (which, iname, hex(t)),
                                       "replay": {"fn": "add" if which == "add_elements" else "nonu", "inst": inst.desc, "P1": list(a), "P2": list(b), "l1": lam1, "l2": lam2},
                                       "expected": list(want), "observed": got})
            acc.seen(("ed25519", which, pair_index, role, lam2))
    # doubling: intermediates are quadratic in the scaling - use targets that are squares
    if which == "add_elements":
        dbl = getattr(m, "double_element", None)
        from ..ref.numth import sqrt_mod
        for Pd in (P1, P2):
            X1, Y1 = Pd
            vals = {"A": X1 * X1 % Q, "B": Y1 * Y1 % Q, "C": 2 % Q, "J": (X1 + Y1) ** 2 % Q, "G": (Y1 * Y1 - X1 * X1) % Q,
                    "F": (Y1 * Y1 - X1 * X1 - 2) % Q, "H": (-X1 * X1 - Y1 * Y1) % Q, "E": ((X1 + Y1) ** 2 - X1 * X1 - Y1 * Y1) % Q}
            for iname, v0 in sorted(vals.items()):
                if v0 == 0 or dbl is None:
                    continue
                for t in TARGETS:
                    r = sqrt_mod(t % Q * pow(v0, -1, Q) % Q, Q)
                    if not r:
                        continue
                    got = aff_of(dbl(ext(Pd, r, Q)), Q)
                    n += 1
                    if got != R.add(Pd, Pd):
                        acc.violation("C12/ed25519/double_element/intermediate-boundary",
                                      {"what": "double_element is wrong over GF(2^255-19) for a scaling that makes the intermediate %s equal to %s" % (iname, hex(t)),
                                       "replay": {"fn": "dbl", "inst": inst.desc, "P": list(Pd), "l": r}, "expected": list(R.add(Pd, Pd)), "observed": got})
    acc.n(states=n, transitions=n, traces=1)
    return acc


def run(tier, seed):
    acc = Acc()
    b = bounds(tier)
    tasks = []
    for name in b["toy_curves_full"] + b["toy_curves_partial_scalings"]:
        inst, why = T.try_get(name)
        if inst is None:
            acc.degrade("%s unavailable: %s" % (name, why))
            continue
        n = len(inst.ref.points())
        step = 1 if n > 30 else 2
        for lo in range(0, n, step):
            tasks.append(("pairs", (name, lo, min(n, lo + step), "full" if name in b["toy_curves_full"] else "partial")))
    for name in b["ladder"]:
        tasks.append(("ladder", name))
    for lo in range(0, 24, 2):
        tasks.append(("real", (lo, lo + 2, seed)))
    for which in ("add_elements", "_add_elements_nonunfied"):
        for pi in range(8):
            tasks.append(("bnd", (which, pi)))
    tasks.sort(key=lambda t: -({"pairs": 1, "ladder": 3, "real": 2, "bnd": 2}[t[0]]) * (T.hint(t[1][0] if t[0] == "pairs" else (t[1] if t[0] == "ladder" else "E53")).ref.Q ** 2))
    core.pmerge(_dispatch, tasks, acc)
    return acc


def _dispatch(t):
    return {"pairs": _pairs_task, "ladder": _ladder_task, "real": _real_task, "bnd": _boundary_task}[t[0]](t[1])


def replay(rec):
    r = T.unjson(rec["replay"])
    inst = T.build_inst(r["inst"])
    m, Q = inst.mod, inst.ref.Q
    fn = r["fn"]
    if fn == "dbl":
        return aff_of(m.double_element(ext(tuple(r["P"]), r["l"], Q)), Q)
    if fn in ("add", "nonu"):
        f = m.add_elements if fn == "add" else m._add_elements_nonunfied
        return aff_of(f(ext(tuple(r["P1"]), r["l1"], Q), ext(tuple(r["P2"]), r["l2"], Q)), Q)
    if fn == "ladder":
        return aff_of(m.scalarmult_element(ext(tuple(r["P"]), r["l"], Q), r["n"]), Q)
    return aff_of(m.scalarmult_element_safe_slow(ext(tuple(r["P"]), r["l"], Q), r["n"]), Q)
