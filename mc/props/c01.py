"""C01 - key agreement: matching inputs always yield the same session key.

Small groups: EVERY (password scalar w, scalar x, scalar y) x flavour (A/B, S/S) x restore
pattern x identity setting, run as a real exchange; shipped sets: edge-class product through
the wrapper group, including known-dlog M/N that make X* = identity, X* = Y*, K = identity
reachable on the real Ed25519 / integer code."""
import itertools
from .. import target as T, core
from ..core import Acc
from ..ref import spake2 as RS
from . import common as C

LEVEL = "model_checking"
RULE = ("small groups: all (w,x,y) in [0,q)^3 x {A/B, S/S} x restore patterns {none, first, second, both, both twice} x 2 identity settings, "
        "each a complete exchange on the real code (start, optional serialize/from_serialized, cross-delivery, finish); shipped sets: "
        "edge scalars^2 x password classes x flavours x restore patterns. oracle: both finish() return the same 32 bytes unless the "
        "reference says both ends sent the same blinded element or (Edwards) a blinded element is the identity. states = distinct "
        "(instance, flavour, w, x, y) exchanges; transitions = library calls. distinct_nontrivial = distinct (instance, flavour, restore "
        "pattern, outcome class) with outcome class in {agree, reflection, identity-message}")
ASSUMPTIONS = ["the reference model only classifies a run as one of the two exempted coincidences; agreement itself is judged on the "
               "library's own two outputs", "scalars forced through the entropy function (mapping checked by C11 / re-read through serialize())"]
EXHAUSTIVE = True
PATTERNS = ["none", "first", "second", "both", "both-twice"]


def bounds(tier):
    return {"full_wxy": ["T11", "T23", "T29", "T31", "E37", "E109"] if tier == "quick" else
            ["T11", "T23", "T29", "T31", "T43", "T59", "E29", "E37", "E53", "E109", "E157", "E229"],
            "partial": [] if tier == "quick" else ["T263", "T509", "T1543"], "restore_patterns": PATTERNS}


def fam(inst):
    return inst.kind if inst.small else inst.name.split("+")[0]


def exchange(inst, flavour, pw, ids, x, y, pattern, acc, record=None):
    """run one exchange on the real code; returns (out1, out2, m1, m2)"""
    s1side, s2side = ("A", "B") if flavour == "AB" else ("S", "S")
    a = inst.new(s1side, pw, ids, x)
    b = inst.new(s2side, pw, ids, y)
    m1 = T.observe(a.start)
    m2 = T.observe(b.start)
    ncalls = 4
    if m1[0] != "ok" or m2[0] != "ok":
        return m1, m2, m1, m2, ncalls
    if record is not None:
        # scalars the two instances report (the entropy -> scalar mapping is C11's subject)
        record["x"], record["y"] = T.read_scalar(inst, a), T.read_scalar(inst, b)
    reps1 = {"none": 0, "first": 1, "second": 0, "both": 1, "both-twice": 2}[pattern]
    reps2 = {"none": 0, "first": 0, "second": 1, "both": 1, "both-twice": 2}[pattern]
    try:
        for _ in range(reps1):
            a = inst.restore(s1side, a.serialize())
            ncalls += 2
        for _ in range(reps2):
            b = inst.restore(s2side, b.serialize())
            ncalls += 2
    except Exception as e:
        return ("exc", "restore:" + type(e).__name__), ("exc", "restore:" + type(e).__name__), m1, m2, ncalls
    k1 = T.observe(a.finish, m2[1])
    k2 = T.observe(b.finish, m1[1])
    return k1, k2, m1, m2, ncalls


def judge(inst, flavour, pw, w, ids, x, y, pattern, acc):
    R, rp = inst.ref, inst.rp
    s1, s2 = ("A", "B") if flavour == "AB" else ("S", "S")
    obs = {}
    k1, k2, m1, m2, nc = exchange(inst, flavour, pw, ids, x, y, pattern, acc, record=obs)
    acc.n(transitions=nc)
    if ("exc", "EntropyExhausted") in (m1, m2):
        # the sampler asked for more entropy than the script that encodes this scalar holds: with an unbounded stream the run would go
        # on with another scalar.  Which scalar a stream yields is C11's subject; this run is not an execution C01 can judge.
        acc.degrade("%s: start() asked for more entropy than the script for the intended scalar holds (sampler: see C11)" % fam(inst))
        return
    # reference classification of the run: the two coincidences the statement exempts are properties of the PROTOCOL for the
    # scalars the instances drew (a bug that makes a message the identity is not exempt)
    xo = x if obs.get("x") is None else obs["x"]
    yo = y if obs.get("y") is None else obs["y"]
    p1, p2 = RS.payload(rp, s1, w, xo), RS.payload(rp, s2, w, yo)
    ident = R.enc(R.identity)
    F = fam(inst)
    if p1 == p2:
        acc.degenerate["same-blinded-element"] += 1
        acc.seen((F, flavour, pattern, "reflection"))
        return
    if R.refuses_identity and ident in (p1, p2):
        acc.degenerate["identity-message"] += 1
        acc.seen((F, flavour, pattern, "identity-message"))
        return
    ok = k1[0] == "ok" and k1 == k2 and isinstance(k1[1], bytes) and len(k1[1]) == 32
    acc.seen((F, flavour, pattern, "agree" if ok else "DISAGREE"))
    if not ok:
        acc.violation("C01/%s/%s/%s" % (F, flavour, pattern if pattern == "none" else "restored"),
                      {"what": "matching ends do not derive the same 32-byte key",
                       "replay": {"inst": inst.desc, "flavour": flavour, "pw": pw, "ids": list(ids), "x": x, "y": y, "pattern": pattern},
                       "expected": "equal 32-byte keys", "observed": [k1, k2]})


def _small_task(task):
    name, ws, full_xy = task
    acc = Acc()
    inst, why = T.try_get(name)
    if inst is None:
        acc.degrade("%s unavailable: %s" % (name, why))
        return acc
    q = inst.q
    wit = inst.pw_witnesses()
    ids_menu = {"AB": [(b"", b""), (b"a", b"b")], "SS": [(b"",), (b"s",)]}
    xs = range(q)
    ys = list(range(q)) if full_xy else [0, 1, q - 1]
    n = 0
    for w in ws:
        pw = wit[w]
        for flavour in ("AB", "SS"):
            for x in xs:
                for y in ys:
                    for pi, pattern in enumerate(PATTERNS):
                        ids = ids_menu[flavour][(pi + x + y) % 2]
                        judge(inst, flavour, pw, w, ids, x, y, pattern, acc)
                        n += 1
                    acc.n(states=1)
    acc.n(traces=n)
    acc.inst(name, exchanges=n)
    acc.sample({"inst": name, "w": ws[-1], "pw": wit[ws[-1]], "x": q - 1, "y": ys[-1], "flavour": "SS", "pattern": PATTERNS[-1]})
    return acc


def _ids_task(name):
    """all identity settings of the menu x all (x,y), one password, with and without restore"""
    acc = Acc()
    inst, why = T.try_get(name)
    if inst is None:
        return acc
    q = inst.q
    pw = b"pw"
    w = inst.ref.pw_scalar(pw)
    n = 0
    for flavour, menu in (("AB", C.IDS_AB), ("SS", C.IDS_S)):
        for ids in menu:
            for x, y in itertools.product(range(q), repeat=2):
                for pattern in ("none", "both"):
                    judge(inst, flavour, pw, w, ids, x, y, pattern, acc)
                    n += 1
    acc.n(traces=n, states=n // 2)
    return acc


def _sequence_task(task):
    """several parameter sets used one after the other in ONE process with the same passwords and scalars (same group object
    with other seeds, another group, back to the first): agreement must not depend on what ran before"""
    names, = task
    acc = Acc()
    insts = []
    for n in names:
        try:
            if n.endswith("'"):
                base = T.get(n[:-1])
                s = base.rp.seeds
                inst = T.reseeded(base, M=T.alt_seed(base, s[0], b"+"), N=T.alt_seed(base, s[1], b"+"), S=T.alt_seed(base, s[2], b"+"), name=n)
            else:
                inst = T.get(n)
            insts.append(inst)
        except Exception as e:
            acc.degrade("%s unavailable: %s: %s" % (n, type(e).__name__, e))
    n = 0
    for rnd in range(2):
        for inst in insts + insts[::-1]:
            q = inst.q
            for pw in (b"pw", b"other"):
                w = inst.ref.pw_scalar(pw)
                scal = [(1, 2), (3 % q, 4 % q), (0, 1)] if not inst.small else [(x, y) for x in range(min(q, 5)) for y in range(min(q, 5))]
                for flavour in ("AB", "SS"):
                    for (x, y) in scal:
                        for pattern in ("none", "both"):
                            judge(inst, flavour, pw, w, C.ids_for("S" if flavour == "SS" else "A", 1), x, y, pattern, acc)
                            n += 1
    acc.n(traces=n, states=n)
    acc.sample({"sequence_of_parameter_sets_in_one_process": names})
    return acc


def _shipped_task(task):
    name, pw, flavour, xs, ys, patterns, seed = task
    acc = Acc()
    try:
        base = T.get(name)
        q = base.q
        inst = T.wrapped(base, pw_map={b"\x00w0": 0, b"\x00w1": 1, b"\x00wq": q - 1}, name=name + "+w")
    except Exception as e:
        acc.degrade("%s wrapper unavailable: %s: %s" % (name, type(e).__name__, e))
        return acc
    w = inst.ref.pw_scalar(pw)
    n = 0
    for i, (x, y) in enumerate(itertools.product(xs, ys)):
        pattern = patterns[i % len(patterns)]
        ids = C.ids_for("S" if flavour == "SS" else "A", i)
        judge(inst, flavour, pw, w, ids, x, y, pattern, acc)
        n += 1
    acc.n(traces=n, states=n)
    acc.inst(name, exchanges=n)
    acc.sample({"inst": name, "pw": pw, "flavour": flavour, "x": str(xs[-1]), "y": str(ys[-1])})
    return acc


def _pattern_task(task):
    """shipped groups: exchanges whose messages / shared element / scalars carry a distinguished byte at every position"""
    name, flavour, level, part, nparts = task
    acc = Acc()
    inst, why = T.try_get(name)
    if inst is None:
        acc.degrade("%s unavailable: %s" % (name, why))
        return acc
    R, rp, q = inst.ref, inst.rp, inst.q
    pw = b"password"
    w = R.pw_scalar(pw)
    s1 = "A" if flavour == "AB" else "S"
    sess = C.PATTERNS.get((name, s1, pw, level)) or C.pattern_sessions(inst, s1, pw, level)
    pairs = [(x, y) for (x, y, inb, tag) in sess]
    mine = pairs[part::nparts]
    for j, (x, y) in enumerate(mine):
        judge(inst, flavour, pw, w, C.ids_for("S" if flavour == "SS" else "A", j), x, y, PATTERNS[j % 3 * 2 % 5], acc)
    acc.n(traces=len(mine), states=len(mine))
    acc.inst(name, pattern_exchanges=len(mine))
    return acc


def _rare_task(task):
    """shipped groups with the password scalar forced to 0: messages are x*G, so the frozen rare multiples put structurally
    rare encodings on the wire in both directions of an honest exchange"""
    name, flavour = task
    acc = Acc()
    try:
        base = T.get(name)
        inst = T.wrapped(base, pw_map={b"\x00w0": 0}, name=name + "+w")
    except Exception as e:
        acc.degrade("%s wrapper unavailable: %s: %s" % (name, type(e).__name__, e))
        return acc
    ks = [k for _, k in sorted(C.rare_multiples(name).items())]
    n = 0
    for j, k in enumerate(ks):
        for y in (ks[(j + 1) % len(ks)], 0x1234567):
            judge(inst, flavour, b"\x00w0", 0, C.ids_for("S" if flavour == "SS" else "A", j), k % inst.q, y % inst.q, PATTERNS[j % 5], acc)
            n += 1
    acc.n(traces=n, states=n)
    acc.inst(name, rare_exchanges=n)
    return acc


def _known_dlog_task(task):
    """parameter sets with known-dlog M, N, S on the REAL shipped code: X* = identity, X* = Y*, K = identity, w = 0"""
    name, seed = task
    acc = Acc()
    try:
        base = T.get(name)
        q = base.q
        m, n_, s_ = 5, 7, 11
        inst = T.wrapped(base, pw_map={b"\x00w3": 3, b"\x00w0": 0}, dlogs=[m, n_, s_], name=name + "+dlog")
    except Exception as e:
        acc.degrade("%s known-dlog wrapper unavailable: %s: %s" % (name, type(e).__name__, e))
        return acc
    w = 3
    pw = b"\x00w3"
    cases = []
    # X* = identity: x = -w*m
    cases.append(("AB", (-w * m) % q, 2, "X*=identity"))
    cases.append(("AB", 2, (-w * n_) % q, "Y*=identity"))
    cases.append(("SS", (-w * s_) % q, 2, "S1*=identity"))
    # X* = Y*: x + w m = y + w n
    y = 4
    cases.append(("AB", (y + w * n_ - w * m) % q, y, "X*=Y*"))
    cases.append(("SS", 9, 9, "S1*=S2*"))
    # K = identity: x = 0 or y = 0
    cases.append(("AB", 0, 5, "x=0 (K=identity)"))
    cases.append(("AB", 5, 0, "y=0 (K=identity)"))
    cases.append(("SS", 0, 0 + 1, "x=0 (K=identity)"))
    cases.append(("AB", 0, 0, "x=y=0"))
    cnt = 0
    for flavour, x, y, tag in cases:
        for pattern in ("none", "both"):
            before = sum(acc.degenerate.values())
            judge(inst, flavour, pw, w, C.ids_for("S" if flavour == "SS" else "A", 1), x, y, pattern, acc)
            cnt += 1
            acc.extra.setdefault("constructed_cases", {})["%s %s" % (name, tag)] = \
                "exempt" if sum(acc.degenerate.values()) > before else "judged"
    # w = 0 through the wrapper
    for flavour in ("AB", "SS"):
        for x, y in ((0, 0), (0, 1), (1, q - 1), (q - 1, q - 1), (2, 3)):
            judge(inst, flavour, b"\x00w0", 0, C.ids_for("S" if flavour == "SS" else "A", 0), x, y, "second", acc)
            cnt += 1
    acc.n(traces=cnt, states=cnt)
    return acc


def _heavy(t):
    return {"seq": _sequence_task, "dlog": _known_dlog_task, "rare": _rare_task, "pat": _pattern_task, "ship": _shipped_task}[t[0]](t[1])


def _default_path(acc):
    L = T.lib()
    for flavour in ("AB", "SS"):
        for pw in (b"password", b"\x00\xff", b"p" * 70):
            if flavour == "AB":
                a, b = L.A(pw, idA=b"alice", idB=b"bob"), L.B(pw, idA=b"alice", idB=b"bob")
            else:
                a, b = L.S(pw, idSymmetric=b"x"), L.S(pw, idSymmetric=b"x")
            m1, m2 = T.observe(a.start), T.observe(b.start)
            acc.n(states=1, transitions=6, traces=1)
            if m1[0] != "ok" or m2[0] != "ok":
                acc.violation("C01/default-path/start", {"what": "default-parameter session cannot start", "replay": {"default_path": True},
                              "expected": "messages", "observed": [m1, m2]})
                continue
            blob = T.observe(b.serialize)
            if blob[0] == "ok":
                b = T.observe(type(b).from_serialized, blob[1])
                b = b[1] if b[0] == "ok" else None
            k1 = T.observe(a.finish, m2[1])
            k2 = T.observe(b.finish, m1[1]) if b is not None else ("exc", "restore failed")
            if m1[1][1:] == m2[1][1:]:
                continue
            if not (k1[0] == "ok" and k1 == k2 and len(k1[1]) == 32):
                acc.violation("C01/default-path/%s" % flavour, {"what": "default-parameter sessions (os.urandom, DefaultParams) do not agree",
                              "replay": {"default_path": True, "flavour": flavour, "pw": pw}, "expected": "equal keys", "observed": [k1, k2]})
            acc.seen(("default", flavour, len(pw)))


def _unusable(acc, name, why):
    if T.lib_refuses_valid_group(name, why):
        acc.violation("%s/int/parameter-set-over-valid-group-fails" % "C01", {"what": "a parameter set over the valid integer group %s (well-defined seeds) cannot be built through the public API: %s" % (name, why[4:]),
                      "replay": {"fn": "build", "name": name}, "expected": "parameter set", "observed": why[4:]})


def run(tier, seed):
    acc = Acc()
    quick = tier == "quick"
    b = bounds(tier)
    tasks = []
    for name in b["full_wxy"]:
        inst, why = T.try_get(name)
        if inst is None:
            acc.degrade("%s unavailable: %s" % (name, why))
            _unusable(acc, name, why)
            continue
        for w in range(inst.q):
            tasks.append((name, [w], True))
    for name in b["partial"]:
        inst, why = T.try_get(name)
        if inst is None:
            acc.degrade("%s unavailable: %s" % (name, why))
            _unusable(acc, name, why)
            continue
        # (x,y) full x w in {0,1,generic}; w full x (x in all, y in 3 values)
        for w in (0, 1, inst.q // 2 + 1):
            tasks.append((name, [w], True))
        for ws in core.chunks([w for w in range(inst.q) if w not in (0, 1, inst.q // 2 + 1)], 32):
            tasks.append((name, ws, False))
    tasks.sort(key=lambda t: -(T.hint(t[0]).q ** 2) * len(t[1]) * (1 if t[2] else 0.05) * (20 if T.hint(t[0]).kind == "ed" else 1))
    core.pmerge(_small_task, tasks, acc)
    core.pmerge(_ids_task, ["T23", "E37"] if quick else ["T23", "T29", "E37", "E109"], acc)
    stasks = []
    for name in T.SHIPPED + T.WIDE:
        inst, why = T.try_get(name)
        if inst is None:
            acc.degrade("%s unavailable: %s" % (name, why))
            _unusable(acc, name, why)
            continue
        xs = C.edge_scalars(inst.q, seed, 1)
        xs = xs[:4] if quick else xs[:8]
        pws = [b"\x00w0", b"\x00w1", b"\x00wq", b"password"] if quick else \
              [b"\x00w0", b"\x00w1", b"\x00wq", b"password", b"", b"\x00", b"\xff\xfe\x80", b"p" * 65, b"\xc3\xa9" * 100]
        pats = ["none", "first", "both"] if not quick else ["none", "both"]
        for pw in pws:
            for flavour in ("AB", "SS"):
                for xc in core.chunks(xs, 2 if quick else 4):
                    stasks.append((name, pw, flavour, xc, xs, pats, seed))
    heavy = [("seq", t) for t in [(["ParamsEd25519", "ParamsEd25519'"],), (["Params1024", "Params1024'"],), (["E37", "E37'", "E109"],), (["T23", "T23'", "T29", "T11"],)]]
    heavy += [("dlog", (n, seed)) for n in reversed(T.SHIPPED)]
    stasks.sort(key=lambda t: -T.hint(t[0]).ref.esize)
    C.prepare_patterns(T.SHIPPED, "AS", b"password", 0 if quick else 1)
    ptasks = []
    for name in T.SHIPPED:
        if T.try_get(name)[0] is None:
            continue
        np_ = {"ParamsEd25519": 12, "Params1024": 6, "Params2048": 16, "Params3072": 32}[name] * (1 if quick else 3)
        for flavour in ("AB", "SS"):
            for part in range(np_):
                ptasks.append((name, flavour, 0 if quick else 1, part, np_))
    ptasks.sort(key=lambda t: -T.hint(t[0]).ref.esize)
    heavy += [("rare", (n, f)) for n in reversed(T.SHIPPED) for f in ("AB", "SS")]
    heavy += [("pat", t) for t in ptasks] + [("ship", t) for t in stasks]
    core.pmerge(_heavy, heavy, acc)
    _default_path(acc)
    return acc


def replay(rec):
    r = T.unjson(rec["replay"])
    if r.get("fn") == "build":
        return T.try_get(r["name"])[1][4:]
    if r.get("default_path"):
        return "default-path run (os.urandom): not replayable bit for bit; see observed"
    inst = T.build_inst(r["inst"])
    k1, k2, m1, m2, _ = exchange(inst, r["flavour"], r["pw"], tuple(r["ids"]), r["x"], r["y"], r["pattern"], Acc())
    return [k1, k2]
