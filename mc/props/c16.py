"""C16 - sessions are pure and isolated under any interleaving.

(a) stateless: ALL linear extensions of the start/serialize/restore/finish calls of 3-4
    concurrent sessions that respect message availability, each re-executed from scratch;
(b) stateful BFS over (program counters, instance canon, shared-heap fingerprint) for a
    harness whose interleavings are too many to enumerate;
(c) shared-heap fingerprint evaluated at every line event of one monitored execution;
(d) E3: all 2-thread schedules with a bounded number of preemptions at line granularity.
Oracle: every session's message, state and key equal those of its isolated run."""
import copy, itertools, os, sys
from .. import target as T, core, heap, sched
from ..core import Acc
from ..ref import spake2 as RS
from . import common as C

LEVEL = "model_checking"
RULE = ("harnesses H3 (A/B pair on P + Symmetric session on P', same group object), H4 (two A/B pairs on P and P'), H4= (two pairs on the SAME "
        "parameter object, different passwords and identities), H4' (pairs on two different groups); programs start / [serialize] / "
        "[restore] / finish, finish enabled once the peer has started. (a) every linear extension, replayed from scratch; (b) BFS to "
        "fixpoint over (pc vector, instance canon, blobs, shared-heap fingerprint) of the 4-session 4-step harness; (c) heap fingerprint "
        "at every line event of one execution; (d) all schedules of 2 threads (one session each: constructor, start, finish) with <= 1 "
        "(quick) / <= 2 (thorough) preemptions at source-line granularity. oracle: each step's output equals the session's isolated run; "
        "encodings of Base/Zero/M/N/S and group constants unchanged afterwards. states = distinct (harness, pc vector[, canon]) states / "
        "schedules; transitions = session steps executed; traces_validated = complete interleavings / schedules. distinct_nontrivial = "
        "distinct (harness, interleaving class) = (harness, first three scheduling choices) executed")
ASSUMPTIONS = ["thread schedules are explored at source-line granularity under the GIL; preemption inside one line, C code releasing the GIL and "
               "free-threaded builds are not modelled", "the shared-heap fingerprint is state identity, not an oracle"]
EXHAUSTIVE = True


def bounds(tier):
    return {"preemption_bound": 1 if tier == "quick" else 2, "interleavings": "all linear extensions",
            "harnesses": [h[0] for h in harness_list(tier)]}


# ---------------------------------------------------------------------------
# instances of a harness

_VAR = {}


def pinst(key):
    """'T23' | "T23'" (same group object, other seeds)"""
    if key in _VAR:
        return _VAR[key]
    if key.endswith("'"):
        base = T.get(key[:-1])
        s = base.rp.seeds
        inst = T.reseeded(base, M=T.alt_seed(base, s[0], b"*"), N=T.alt_seed(base, s[1], b"*"), S=T.alt_seed(base, s[2], b"*"), name=key)
    else:
        inst = T.get(key)
    _VAR[key] = inst
    return inst


PROGRAMS = {2: ["start", "finish"], 3: ["start", "restore1", "finish"], 4: ["start", "serialize", "restore", "finish"]}


def harness_list(tier):
    q = tier == "quick"
    hs = [
        ("H3/T23/4step", [("T23", "A", b"pw1", 3, 1), ("T23", "B", b"pw1", 5, 0), ("T23'", "S", b"pw2", 7, None)], 4),
        ("H4/T23/2step", [("T23", "A", b"pw1", 3, 1), ("T23", "B", b"pw1", 5, 0), ("T23'", "A", b"pw2", 6, 3), ("T23'", "B", b"pw2", 2, 2)], 2),
        ("H4=/T23/2step", [("T23", "A", b"pw1", 3, 1), ("T23", "B", b"pw1", 5, 0), ("T23", "A", b"pw2", 6, 3), ("T23", "B", b"pw2", 2, 2)], 2),
        ("H4'/T23+T29/2step", [("T23", "A", b"pw1", 3, 1), ("T23", "B", b"pw1", 5, 0), ("T29", "A", b"pw2", 6, 3), ("T29", "B", b"pw2", 2, 2)], 2),
        # entropy streams whose first draw is rejected (negative scalar = "one rejected draw, then this scalar")
        ("H3redraw/T23/2step", [("T23", "A", b"pw1", -3, 1), ("T23", "B", b"pw1", -5, 0), ("T23'", "S", b"pw2", -7, None)], 2),
        ("H2redraw/Params1024/2step", [("Params1024", "A", b"pw1", -3, 1), ("Params1024", "B", b"pw1", 5, 0)], 2),
        # two symmetric pairs, one with identities and one without, all persisted and restored
        ("H3sym-ids/T23/4step", [("T23", "S", b"pw1", 3, None, (b"id-one",)), ("T23", "S", b"pw2", 4, None, (b"",)),
                                 ("T23", "S", b"pw1", 5, None, (b"\x00",))], 4),
        ("H3asym-ids/T23/4step", [("T23", "A", b"pw1", 3, None, (b"alice", b"")), ("T23", "A", b"pw2", 4, None, (b"", b"")),
                                  ("T23", "B", b"pw1", 5, None, (b"", b"bob"))], 4),
        # forced collisions: sessions that differ in exactly one thing
        ("H4seeds/T23/2step", [("T23", "A", b"pw1", 3, 1), ("T23", "B", b"pw1", 5, 0), ("T23'", "A", b"pw1", 3, 3), ("T23'", "B", b"pw1", 5, 2)], 2),
        ("H4scalar/T23/2step", [("T23", "A", b"pw1", 3, 1), ("T23", "B", b"pw1", 5, 0), ("T23", "A", b"pw1", 4, 3), ("T23", "B", b"pw1", 6, 2)], 2),
        ("H4group/T23+T29/2step", [("T23", "S", b"pw1", 3, 1), ("T23", "S", b"pw1", 5, 0), ("T29", "S", b"pw1", 3, 3), ("T29", "S", b"pw1", 5, 2)], 2),
        ("H4seeds/E37/2step", [("E37", "A", b"pw1", 3, 1), ("E37", "B", b"pw1", 4, 0), ("E37'", "A", b"pw1", 3, 3), ("E37'", "B", b"pw1", 4, 2)], 2),
        ("H4=/E37/2step", [("E37", "A", b"pw1", 3, 1), ("E37", "B", b"pw1", 4, 0), ("E37", "S", b"pw2", 1, None), ("E37'", "S", b"pw2", 2, None)], 2),
        ("H3/ParamsEd25519/2step", [("ParamsEd25519", "A", b"pw1", 3, 1), ("ParamsEd25519", "B", b"pw1", 5, 0), ("ParamsEd25519", "S", b"pw2", 7, None)], 2),
        ("H3/Params1024/2step", [("Params1024", "A", b"pw1", 3, 1), ("Params1024", "B", b"pw1", 5, 0), ("Params1024", "S", b"pw2", 7, None)], 2),
        # edge scalars: sessions that draw 0 / q-1, so that identity elements (shared singletons in some groups) and K = identity occur
        ("H4zero/E37/2step", [("E37", "A", b"pw1", 0, 1), ("E37", "B", b"pw1", 0, 0), ("E37", "S", b"pw2", 0, None), ("E37", "A", b"pw1", 3, 1)], 2),
        ("H4zero/T23/2step", [("T23", "A", b"pw1", 0, 1), ("T23", "B", b"pw1", 0, 0), ("T23", "S", b"pw2", 0, None), ("T23", "A", b"pw1", 10, 1)], 2),
        ("H3zero/ParamsEd25519/2step", [("ParamsEd25519", "A", b"pw1", 0, 1), ("ParamsEd25519", "B", b"pw1", 0, 0), ("ParamsEd25519", "S", b"pw2", 0, None)], 2),
        ("H4mix/T23+E109/3step", [("T23", "S", b"pw1", 3, 1), ("T23", "S", b"pw1", 5, 0), ("E109", "A", b"pw2", 6, 3), ("E109", "B", b"pw2", 2, 2)], 3 if not q else 2),
    ]
    if not q:
        hs += [("H4sym/T23/3step", [("T23", "S", b"pw1", 3, 1, (b"id-one",)), ("T23", "S", b"pw1", 5, 0, (b"id-one",)),
                                    ("T23", "S", b"pw2", 4, 3, (b"",)), ("T23", "S", b"pw2", 6, 2, (b"",))], 3),
               ("H4/T23/3step", [("T23", "A", b"pw1", 3, 1), ("T23", "B", b"pw1", 5, 0), ("T23'", "A", b"pw2", 6, 3), ("T23'", "B", b"pw2", 2, 2)], 3),
               ("H4=/T29/3step", [("T29", "A", b"pw1", 3, 1), ("T29", "B", b"pw1", 5, 0), ("T29", "S", b"pw2", 6, 3), ("T29", "S", b"pw2", 2, 2)], 3),
               ("H3/E109/4step", [("E109", "A", b"pw1", 3, 1), ("E109", "B", b"pw1", 5, 0), ("E109'", "S", b"pw2", 7, None)], 4),
               ("H3/Params3072/2step", [("Params3072", "A", b"pw1", 3, 1), ("Params3072", "B", b"pw1", 5, 0), ("Params3072", "S", b"pw2", 7, None)], 2)]
    return hs


class Sess:
    __slots__ = ("key", "inst", "side", "pw", "x", "peer", "ids", "prog", "obj", "pc", "out", "blob", "pre", "redraw")


class Harness:
    def __init__(self, name, specs, nsteps):
        self.name = name
        self.specs = specs
        self.prog = PROGRAMS[nsteps]
        self.n = len(specs)
        self.expected = None

    def fresh(self):
        ss = []
        for i, spec in enumerate(self.specs):
            key, side, pw, x, peer = spec[:5]
            s = Sess()
            s.key, s.inst, s.side, s.pw, s.x, s.peer = key, pinst(key), side, pw, abs(x) % pinst(key).q, peer
            s.redraw = x < 0 and pinst(key).kind == "int"
            s.ids = tuple(spec[5]) if len(spec) > 5 else C.ids_for(side, i + 1)
            s.prog, s.obj, s.pc, s.out, s.blob = self.prog, None, 0, [], None
            if peer is None:
                w = s.inst.ref.pw_scalar(pw)
                s.pre = C.inbound_menu(s.inst, side, w, s.x)[0][1]
            else:
                s.pre = None
            ss.append(s)
        return ss

    def enabled(self, ss):
        out = []
        for i, s in enumerate(ss):
            if s.pc >= len(s.prog):
                continue
            if s.prog[s.pc] == "finish" and s.peer is not None and ss[s.peer].pc < 1:
                continue
            out.append(i)
        return out

    def step(self, ss, i):
        s = ss[i]
        op = s.prog[s.pc]
        s.pc += 1
        if op == "start":
            if s.redraw:
                R = s.inst.ref
                ent = T.Script([b"\xff" * R.ssize] + R.entropy_for_scalar(s.x))
                s.obj = s.inst.new(s.side, s.pw, s.ids, entropy=ent)
            else:
                s.obj = s.inst.new(s.side, s.pw, s.ids, s.x)
            o = T.observe(s.obj.start)
        elif op == "serialize":
            o = T.observe(s.obj.serialize)
            s.blob = o[1] if o[0] == "ok" else None
        elif op == "restore":
            o = T.observe(s.inst.restore, s.side, s.blob)
            if o[0] == "ok":
                s.obj = o[1]
                o = ("ok", "instance")
        elif op == "restore1":
            b = T.observe(s.obj.serialize)
            if b[0] == "ok":
                r = T.observe(s.inst.restore, s.side, b[1])
                if r[0] == "ok":
                    s.obj = r[1]
                    o = ("ok", b[1])
                else:
                    o = r
            else:
                o = b
        else:
            if s.peer is None:
                m = s.pre
            else:
                po = ss[s.peer].out[0]
                m = po[1] if po[0] == "ok" else b""
            o = T.observe(s.obj.finish, m)
        s.out.append(o)
        return o

    def isolated(self, order=None):
        """each session alone (the peer's message comes from the peer's own isolated start)"""
        if self.expected is not None and order is None:
            return self.expected
        idx = list(range(self.n)) if order is None else list(order)
        exp = [None] * self.n
        starts = [None] * self.n
        for i in idx:
            ss = self.fresh()
            self.step(ss, i)
            starts[i] = ss[i].out[0]
        for i in idx:
            ss = self.fresh()
            s = ss[i]
            if s.peer is not None:
                ss[s.peer].out = [starts[s.peer]]
                ss[s.peer].pc = 1
            while s.pc < len(s.prog):
                self.step(ss, i)
            exp[i] = list(s.out)
        if order is None:
            self.expected = exp
        return exp

    def reference(self):
        """message and key of every session per the reference model (independent of any process state)"""
        ss = self.fresh()
        msgs = []
        for s in ss:
            w = s.inst.ref.pw_scalar(s.pw)
            msgs.append(RS.message(s.inst.rp, s.side, w, s.x))
        out = []
        for s in ss:
            w = s.inst.ref.pw_scalar(s.pw)
            inbound = s.pre if s.peer is None else msgs[s.peer]
            r = RS.finish(s.inst.rp, s.side, s.pw, w, s.ids, s.x, inbound)
            out.append((msgs[len(out)], r))
        return out

    def check_isolated(self, acc):
        """the isolated runs themselves: independent of the order in which they were made in this process, and equal to the
        reference model (a leak between sessions that is consistent within one process shows up here)"""
        fwd = self.isolated()
        rev = self.isolated(order=list(reversed(range(self.n))))
        fam = self.name.split("/")[0]
        acc.n(transitions=2 * self.n * len(self.prog))
        if fwd != rev:
            bad = [i for i in range(self.n) if fwd[i] != rev[i]]
            acc.violation("C16/%s/isolated-runs-depend-on-order" % fam,
                          {"what": "sessions run one at a time give different outputs depending on which other sessions ran before them in the process (sessions %s)" % bad,
                           "replay": {"fn": "isolated", "harness": self.desc()}, "expected": fwd[bad[0]], "observed": rev[bad[0]]})
        ref = self.reference()
        for i in range(self.n):
            m = fwd[i][0]
            k = fwd[i][-1]
            rm, rk = ref[i]
            okm = m == ("ok", rm)
            okk = (k == ("ok", rk[1])) if rk[0] == "key" else (k[0] == "exc")
            if not (okm and okk):
                acc.violation("C16/%s/isolated-run-differs-from-definition" % fam,
                              {"what": "session %d run alone (after other sessions have run in the process) does not produce the message/key defined by its own arguments" % i,
                               "replay": {"fn": "isolated", "harness": self.desc()}, "expected": [rm, rk[1] if rk[0] == "key" else rk], "observed": [m, k]})

    def shared_snapshot(self):
        snap = []
        for key in sorted({sp[0] for sp in self.specs}):
            inst = pinst(key)
            g, P = inst.group, inst.params
            row = [key]
            for e in (g.Base, g.Zero, P.M, P.N, P.S):
                row.append(T.observe(e.to_bytes))
            for a in ("p", "q", "scalar_size_bytes", "element_size_bytes"):
                row.append(getattr(g, a, None))
            row.append(T.observe(g.order))
            snap.append(tuple(row))
        return tuple(snap)

    def desc(self):
        return {"name": self.name, "specs": [list(sp[:5]) + ([list(sp[5])] if len(sp) > 5 else []) for sp in self.specs], "nsteps": len(self.prog)}


_H = {}


def get_harness(name, tier="thorough"):
    if name not in _H:
        for (n, specs, k) in harness_list(tier) + harness_list("quick"):
            if n == name:
                _H[name] = Harness(n, specs, k)
                break
    return _H[name]


def linear_extensions(H, prefix=()):
    """all complete interleavings (as tuples of session indices) extending `prefix`"""
    out = []

    def rec(pcs, seq):
        en = []
        for i in range(H.n):
            if pcs[i] >= len(H.prog):
                continue
            sp = H.specs[i]
            if H.prog[pcs[i]] == "finish" and sp[4] is not None and pcs[sp[4]] < 1:
                continue
            en.append(i)
        if not en:
            out.append(tuple(seq))
            return
        for i in en:
            pcs[i] += 1
            seq.append(i)
            rec(pcs, seq)
            seq.pop()
            pcs[i] -= 1

    pcs = [0] * H.n
    for i in prefix:
        pcs[i] += 1
    rec(pcs, list(prefix))
    return out


def valid_prefixes(H, depth):
    outs = set()
    for seq in _prefix_rec(H, depth):
        outs.add(seq)
    return sorted(outs)


def _prefix_rec(H, depth):
    res = []

    def rec(pcs, seq):
        if len(seq) == depth:
            res.append(tuple(seq))
            return
        any_en = False
        for i in range(H.n):
            if pcs[i] >= len(H.prog):
                continue
            sp = H.specs[i]
            if H.prog[pcs[i]] == "finish" and sp[4] is not None and pcs[sp[4]] < 1:
                continue
            any_en = True
            pcs[i] += 1
            seq.append(i)
            rec(pcs, seq)
            seq.pop()
            pcs[i] -= 1
        if not any_en:
            res.append(tuple(seq))
    rec([0] * H.n, [])
    return res


def check_run(H, seq, acc, exp, snap0, check_shared=True):
    ss = H.fresh()
    for k, i in enumerate(seq):
        o = H.step(ss, i)
        want = exp[i][len(ss[i].out) - 1]
        acc.n(transitions=1)
        if o != want:
            op = H.prog[ss[i].pc - 1]
            acc.violation("C16/%s/%s-differs-from-isolated-run" % (H.name.split("/")[0] + "/" + ("toy" if pinst(H.specs[i][0]).small else H.specs[i][0]), op),
                          {"what": "in interleaving %s, %s of session %d differs from the session's isolated run" % (list(seq), op, i),
                           "replay": {"fn": "interleaving", "harness": H.desc(), "seq": list(seq)}, "expected": want, "observed": o})
            return False
    if check_shared and H.shared_snapshot() != snap0:
        acc.violation("C16/%s/shared-objects-modified" % H.name.split("/")[0],
                      {"what": "running sessions changed a shared parameter-set / group object (interleaving %s)" % list(seq),
                       "replay": {"fn": "interleaving", "harness": H.desc(), "seq": list(seq)}, "expected": "unchanged", "observed": "changed"})
        return False
    return True


def _interleave_task(task):
    name, prefix, tier = task
    acc = Acc()
    H = get_harness(name, tier)
    exp = H.isolated()
    snap0 = H.shared_snapshot()
    seqs = linear_extensions(H, prefix)
    small = all(pinst(sp[0]).small for sp in H.specs)
    for seq in seqs:
        check_run(H, seq, acc, exp, snap0, check_shared=small)
    if not small and seqs:
        if H.shared_snapshot() != snap0:
            acc.violation("C16/%s/shared-objects-modified" % H.name.split("/")[0], {"what": "running sessions changed a shared parameter-set / group object",
                          "replay": {"fn": "interleaving", "harness": H.desc(), "seq": list(seqs[-1])}, "expected": "unchanged", "observed": "changed"})
    acc.n(traces=len(seqs), states=len(seqs))
    acc.seen((name, tuple(prefix)))
    acc.inst(name, interleavings=len(seqs))
    if seqs and len(prefix) and prefix[0] == 0:
        acc.sample({"harness": name, "interleaving": list(seqs[-1]), "steps": H.prog})
    return acc


# ---------------------------------------------------------------------------
# (b) stateful BFS with heap fingerprint

def _bfs_task(task):
    name, tier = task
    acc = Acc()
    H = get_harness(name, tier)
    exp = H.isolated()
    snap0 = H.shared_snapshot()

    def build(hist):
        ss = H.fresh()
        for i in hist:
            H.step(ss, i)
        return ss

    def canon(ss):
        fp, _ = heap.fingerprint()
        return (tuple(s.pc for s in ss), tuple(T.canon_instance(s.obj) if s.obj is not None else None for s in ss),
                tuple(s.blob for s in ss), fp)

    seen = {canon(build([])): ()}
    frontier = [()]
    fps = set()
    t_end = T.clock.real() + (240 if tier == "quick" else 1200)
    while frontier:
        nxt = []
        for hist in frontier:
            if T.clock.real() > t_end or (len(seen) > 2000 and len(fps) >= len(seen) - 1):
                # only seen when process-wide state never returns to an earlier value (e.g. a call counter): no two histories
                # merge and the search degenerates into the enumeration of all interleavings, which the interleaving tasks do anyway
                acc.cap("bfs %s: stopped (time budget, or no two histories ever share a heap fingerprint) after %d states (%d distinct heap fingerprints); histories up to length %d covered" %
                        (name, len(seen), len(fps), len(hist)))
                frontier, nxt = [], []
                break
            ss = build(hist)
            for i in H.enabled(ss):
                h2 = hist + (i,)
                s2 = build(h2)
                acc.n(transitions=1)
                o = s2[i].out[-1]
                want = exp[i][len(s2[i].out) - 1]
                if o != want:
                    acc.violation("C16/%s/bfs-step-differs-from-isolated-run" % name.split("/")[0],
                                  {"what": "after history %s a step of session %d differs from its isolated run" % (list(h2), i),
                                   "replay": {"fn": "interleaving", "harness": H.desc(), "seq": list(h2)}, "expected": want, "observed": o})
                    continue
                k = canon(s2)
                fps.add(k[3])
                if k not in seen:
                    seen[k] = h2
                    nxt.append(h2)
        frontier = nxt
    if H.shared_snapshot() != snap0:
        acc.violation("C16/%s/shared-objects-modified" % name.split("/")[0], {"what": "running sessions changed a shared object",
                      "replay": {"fn": "interleaving", "harness": H.desc(), "seq": []}, "expected": "unchanged", "observed": "changed"})
    acc.n(states=len(seen), traces=1)
    acc.extra.setdefault("bfs", {})[name] = {"states": len(seen), "distinct_heap_fingerprints": len(fps),
                                             "pc_vectors": len({k[0] for k in seen})}
    acc.seen((name, "bfs", len(seen)))
    return acc


# ---------------------------------------------------------------------------
# (c) heap fingerprint at every line event

def _monitor_task(task):
    name, tier = task
    acc = Acc()
    H = get_harness(name, tier)
    libdir = T.PKG
    fps = {}
    events = [0]

    def loc(frame, event, arg):
        if event == "line":
            events[0] += 1
            fp, n = heap.fingerprint()
            if fp not in fps:
                fps[fp] = (frame.f_code.co_filename.rsplit("/", 1)[-1], frame.f_lineno, n)
        return loc

    def glob(frame, event, arg):
        if frame.f_code.co_filename.startswith(libdir):
            return loc
        return None

    seq = linear_extensions_one(H)
    ss = H.fresh()
    fp0, nobj = heap.fingerprint()
    fps[fp0] = ("<before>", 0, nobj)
    sys.settrace(glob)
    try:
        for i in seq:
            H.step(ss, i)
    finally:
        sys.settrace(None)
    acc.n(states=events[0], transitions=events[0], traces=1)
    acc.extra.setdefault("heap_monitor", {})[name] = {"line_events": events[0], "objects_walked": nobj, "distinct_fingerprints": len(fps),
                                                      "first_seen_at": [list(v) for v in list(fps.values())[:6]],
                                                      "shared_state_never_written": len(fps) == 1}
    if len(fps) > 1:
        acc.note("%s: the shared heap changes during session steps (%d distinct fingerprints) - the interleaving enumerations carry the verdict alone" % (name, len(fps)))
    acc.seen((name, "monitor", len(fps)))
    return acc


def linear_extensions_one(H):
    """round-robin interleaving"""
    ss_pc = [0] * H.n
    seq = []
    while True:
        progressed = False
        for i in range(H.n):
            if ss_pc[i] >= len(H.prog):
                continue
            sp = H.specs[i]
            if H.prog[ss_pc[i]] == "finish" and sp[4] is not None and ss_pc[sp[4]] < 1:
                continue
            ss_pc[i] += 1
            seq.append(i)
            progressed = True
        if not progressed:
            return seq


# ---------------------------------------------------------------------------
# (f) constructor arguments the caller keeps and changes afterwards

def _mutable_probe(inst, side, which):
    """'refused' | [message as defined, key as defined, key after restore as defined]"""
    L = T.lib()
    R, rp = inst.ref, inst.rp
    pw0, x = b"correct horse", 5 % inst.q
    ids0 = C.ids_for(side, 1)
    w = R.pw_scalar(pw0)
    pw = bytearray(pw0) if which == "pw" else (memoryview(bytearray(pw0)) if which == "view" else pw0)
    ids = tuple(bytearray(i) for i in ids0) if which == "ids" else ids0
    try:
        if side == "S":
            s = L.S(pw, idSymmetric=ids[0], params=inst.params, entropy_f=inst.entropy(x))
        else:
            s = L.cls[side](pw, idA=ids[0], idB=ids[1], params=inst.params, entropy_f=inst.entropy(x))
    except Exception:
        return "refused"
    # the caller wipes / reuses its buffers
    if which == "pw":
        pw[:] = b"X" * len(pw)
    elif which == "view":
        pw.obj[:] = b"X" * len(pw0)
    else:
        for i in ids:
            i[:] = b"Z" * len(i)
    m = T.observe(s.start)
    inbound = C.inbound_menu(inst, side, w, x)[0][1]
    blob = T.observe(s.serialize)
    k = T.observe(s.finish, inbound)
    k2 = T.observe(lambda: inst.restore(side, blob[1]).finish(inbound)) if blob[0] == "ok" else ("exc", "-")
    exp = RS.finish(rp, side, pw0, w, ids0, x, inbound)
    return [m == ("ok", RS.message(rp, side, w, x)), exp[0] == "key" and k == ("ok", exp[1]), exp[0] == "key" and k2 == ("ok", exp[1])]


def _mutable_args_task(task):
    """password / identities handed over as bytearray (or memoryview) and OVERWRITTEN by the caller right after construction: either
    the constructor refuses them, or the session is the one its arguments described when it was constructed"""
    name, side = task
    acc = Acc()
    inst, why = T.try_get(name)
    if inst is None:
        return acc
    L = T.lib()
    R, rp = inst.ref, inst.rp
    pw0, x = b"correct horse", 5 % inst.q
    ids0 = C.ids_for(side, 1)
    w = R.pw_scalar(pw0)
    fam = inst.kind if inst.small else inst.name
    for which in ("pw", "ids", "view"):
        got = _mutable_probe(inst, side, which)
        acc.n(states=1, transitions=4)
        if got == "refused":
            acc.seen((name, side, which, "refused"))
            continue
        ok = all(got)
        acc.seen((name, side, which, "accepted", ok))
        if not ok:
            acc.violation("C16/%s/%s/mutable-argument-aliasing" % (fam, side),
                          {"what": "a session constructed with a mutable %s argument changes when the caller overwrites that buffer afterwards (message/key/state no longer those of the constructor arguments)" % which,
                           "replay": {"fn": "mutable", "name": name, "side": side, "which": which},
                           "expected": "refused at construction, or [message, key, restored key] all as defined by the constructor arguments", "observed": got})
    acc.n(traces=1)
    return acc


# ---------------------------------------------------------------------------
# (e) one LONG history in one process: thresholds (pools that fill, counters that wrap, tables built after N uses)

def _soak_task(task):
    """n complete A/B exchanges one after the other on one parameter set, every message and key compared with the reference
    model; a victim session is started first and finished last (valid key on a snapshot; its own reflected message must still be
    refused), so that it stays half-open across all the others"""
    name, n = task
    acc = Acc()
    inst, why = T.try_get(name)
    if inst is None:
        acc.degrade("%s unavailable: %s" % (name, why))
        return acc
    R, rp, q = inst.ref, inst.rp, inst.q
    vpw = b"victim"
    vw = R.pw_scalar(vpw)
    victim = inst.new("A", vpw, (b"v", b"w"), 12345 % q)
    fam = inst.kind if inst.small else inst.name
    vm = T.observe(victim.start)
    acc.n(transitions=1)
    if vm != ("ok", RS.message(rp, "A", vw, 12345 % q)):
        acc.violation("C16/soak/%s/session-differs-from-definition" % fam,
                      {"what": "the first session of a long history does not produce the message defined by its own arguments",
                       "replay": {"fn": "soak", "name": name, "n": 0}, "expected": "reference message", "observed": [vm[0], vm[1] if vm[0] != "ok" else "other message"]})
        return acc
    vmsg = vm[1]
    for i in range(n):
        pw = b"pw-%d" % (i % 7)
        w = R.pw_scalar(pw)
        x, y = (i * 7919 + 3) % q, (i * 104729 + 11) % q
        a = inst.new("A", pw, (b"", b""), x)
        b = inst.new("B", pw, (b"", b""), y)
        ma, mb = T.observe(a.start), T.observe(b.start)
        ka = T.observe(a.finish, mb[1]) if mb[0] == "ok" else ("exc", "-")
        acc.n(transitions=3)
        ea = RS.finish(rp, "A", pw, w, (b"", b""), x, RS.message(rp, "B", w, y))
        if ma != ("ok", RS.message(rp, "A", w, x)) or mb != ("ok", RS.message(rp, "B", w, y)) or (ea[0] == "key" and ka != ("ok", ea[1])):
            acc.violation("C16/soak/%s/session-differs-from-definition" % fam,
                          {"what": "session #%d of a long history in one process does not produce the message/key defined by its own arguments" % i,
                           "replay": {"fn": "soak", "name": name, "n": i + 1}, "expected": "reference message/key", "observed": [ma[0], mb[0], ka[0]]})
            break
    refl = T.observe(T.snapshot(victim).finish, b"B" + vmsg[1:])
    valid = RS.message(rp, "B", vw, 777 % q)
    key = T.observe(T.snapshot(victim).finish, valid)
    ek = RS.finish(rp, "A", vpw, vw, (b"v", b"w"), 12345 % q, valid)
    if refl != ("exc", "ReflectionThwarted") or (ek[0] == "key" and key != ("ok", ek[1])):
        acc.violation("C16/soak/%s/half-open-session-affected-by-others" % fam,
                      {"what": "a session left half-open while %d other sessions ran no longer behaves as defined (reflection refused: %s)" % (n, refl),
                       "replay": {"fn": "soak", "name": name, "n": n}, "expected": ["ReflectionThwarted", "reference key"], "observed": [refl, key[0]]})
    acc.n(states=n, traces=1)
    acc.seen((name, "soak", n))
    acc.extra.setdefault("soak", {})[name] = n
    return acc


def _default_entropy_task(task):
    """sessions built with the DEFAULT entropy source: no two of n sessions may report the same secret scalar (and each message is
    the one defined for the scalar it reports)"""
    n, = task
    acc = Acc()
    L = T.lib()
    inst, why = T.try_get("ParamsEd25519")
    if inst is None or L.sp.DefaultParams is not inst.params:
        return acc
    seen = {}
    for i in range(n):
        s = L.A(b"pw-%d" % (i % 3)) if i % 2 else L.S(b"pw-%d" % (i % 3))
        m = T.observe(s.start)
        x = T.read_scalar(inst, s) if m[0] == "ok" else None
        acc.n(transitions=1)
        if x is None:
            continue
        if x in seen:
            acc.violation("C16/default-entropy/repeated-scalar", {"what": "sessions #%d and #%d built with the default entropy source drew the same secret scalar" % (seen[x], i),
                          "replay": {"fn": "default", "n": i + 1}, "expected": "distinct scalars", "observed": [seen[x], i]})
            break
        seen[x] = i
    acc.n(states=n, traces=1)
    acc.seen(("default-entropy", n))
    return acc


# ---------------------------------------------------------------------------
# (d) threads

THREAD_HARNESSES = {
    "TH/T23-same-params": [("T23", "A", b"pw1", 3), ("T23", "B", b"pw2", 6)],
    "TH/T23-S-S": [("T23", "S", b"pw1", 3), ("T23", "S", b"pw2", 6)],
    "TH/T23+T29": [("T23", "A", b"pw1", 3), ("T29", "S", b"pw2", 4)],
    "TH/T23+T23'": [("T23", "B", b"pw1", 9), ("T23'", "B", b"pw1", 9)],
    "TH/T509+T23": [("T509", "A", b"pw1", 100), ("T23", "A", b"pw2", 6)],
    "TH/E37": [("E37", "A", b"pw1", 3), ("E37", "S", b"pw2", 1)],
    "TH3/T23-three-sessions": [("T23", "A", b"pw1", 3), ("T23", "B", b"pw2", 6), ("T23", "A", b"pw2", 4)],
    "TH3/T23-S": [("T23", "S", b"pw1", 3), ("T23", "S", b"pw2", 6), ("T23", "S", b"pw1", 4)],
    # entropy streams whose first draw is rejected (negative scalar), different streams in the two threads
    "TH/T23-redraw": [("T23", "A", b"pw1", -3), ("T23", "B", b"pw2", -6)],
    # a NEW group and parameter-set object for every explored execution: the threads make the first use of it
    "TH/T23-fresh-params": [("T23!", "A", b"pw1", 3), ("T23!", "B", b"pw1", 6)],
    "TH/T23-fresh-params-S": [("T23!", "S", b"pw1", 3), ("T23!", "A", b"pw2", 6)],
    "TH/T509-redraw": [("T509", "S", b"pw1", -3), ("T509", "S", b"pw2", -100)],
    # a NEW import of the whole library for every explored execution: the threads make the first use of its module-level state, on
    # the default (Ed25519) parameter set with full-size scalars; scheduling points only in frames that can write heap state or read
    # mutable module-level objects (sched.atomic_frame)
    "THF/Ed25519-first-use": [("ED!!", "A", b"pw1", (1 << 251) + 12345), ("ED!!", "B", b"pw2", (1 << 250) + 7)],
    "THF/Ed25519-first-use-S": [("ED!!", "S", b"pw1", (1 << 252) + 3), ("ED!!", "A", b"pw1", (1 << 200) + 11)],
    "THF3/Ed25519-first-use": [("ED!!", "A", b"pw1", (1 << 251) + 12345), ("ED!!", "B", b"pw2", (1 << 250) + 7), ("ED!!", "S", b"pw1", (1 << 252) + 3)],
}


def _fresh_import(hname):
    return hname.startswith("THF")


def thread_bodies(hname):
    specs = THREAD_HARNESSES[hname.split("@")[0]]
    mk = []
    fresh = {}
    for k, (key, side, pw, x) in enumerate(specs):
        if key == "ED!!":
            if key not in fresh:
                fresh[key] = T.fresh_lib()
            FL = fresh[key]
            ref = pinst("ParamsEd25519")
            R, rp = ref.ref, ref.rp
            ids = C.ids_for(side, k + 1)
            w = R.pw_scalar(pw)
            inbound = RS.message(rp, C.PEER[side], w, (x * 3 + 1) % ref.q)

            def body(FL=FL, side=side, pw=pw, ids=ids, x=x, inbound=inbound, R=R):
                ent = T.Script(R.entropy_for_scalar(x))
                if side == "S":
                    s = FL.S(pw, idSymmetric=ids[0], entropy_f=ent)
                else:
                    s = FL.cls[side](pw, idA=ids[0], idB=ids[1], entropy_f=ent)
                m = s.start()
                return (m, s.finish(inbound))
            mk.append(body)
            continue
        if key.endswith("!"):
            if key not in fresh:
                fresh[key] = T.int_toy(key[:-1])      # new IntegerGroup + new _Params, shared by the threads of this execution
            inst = fresh[key]
        else:
            inst = pinst(key)
        redraw = x < 0 and inst.kind == "int"
        x = abs(x) % inst.q
        ids = C.ids_for(side, k + 1)
        w = inst.ref.pw_scalar(pw)
        inbound = C.inbound_menu(inst, side, w, x)[0][1]

        def body(inst=inst, side=side, pw=pw, ids=ids, x=x, inbound=inbound, redraw=redraw, k=k):
            if redraw:
                R = inst.ref
                rej = ((1 << (8 * R.ssize)) - 1 - k).to_bytes(R.ssize, "big")      # rejected, and different per thread
                s = inst.new(side, pw, ids, entropy=T.Script([rej] + R.entropy_for_scalar(x)))
            else:
                s = inst.new(side, pw, ids, x)
            m = s.start()
            return (m, s.finish(inbound))
        mk.append(body)
    return mk


def thread_expected(hname):
    return [T.observe(b) for b in thread_bodies(hname)]


def thread_reference(hname):
    """what the reference model defines for the bodies of a fresh-import harness"""
    out = []
    ref = pinst("ParamsEd25519")
    R, rp = ref.ref, ref.rp
    for k, (key, side, pw, x) in enumerate(THREAD_HARNESSES[hname.split("@")[0]]):
        ids = C.ids_for(side, k + 1)
        w = R.pw_scalar(pw)
        inbound = RS.message(rp, C.PEER[side], w, (x * 3 + 1) % ref.q)
        f = RS.finish(rp, side, pw, w, ids if side != "S" else (ids[0],), x, inbound)
        out.append(("ok", (RS.message(rp, side, w, x), f[1])) if f[0] == "key" else ("exc", f[1]))
    return out


def _opc(hname):
    return hname.endswith("@opcode")


def _thread_root_task(task):
    hname, bound = task
    thread_expected(hname)      # warm-up: every explored execution then starts from the same (warm) process state
    if _opc(hname):
        sched.warm_opcodes(thread_bodies(hname), T.PKG)
    r = sched.Run(thread_bodies(hname), [], T.PKG, _opc(hname), _fresh_import(hname))
    res = r.run()
    alts = sched.alternatives(r, 0, bound)
    return hname, res, alts, len(r.points)


def _thread_task(task):
    hname, bound, prefixes = task
    acc = Acc()
    exp = thread_expected(hname)
    if _opc(hname):
        sched.warm_opcodes(thread_bodies(hname), T.PKG)
    outcomes = set()

    def on_result(res, run):
        acc.n(transitions=len(run.points), traces=1, states=1)
        outcomes.add(core.h8(res))
        if res != exp:
            pre = sum(1 for c, (n, re) in zip(run.choices, run.points) if re and c != 0)
            acc.violation("C16/threads/%s/differs-from-isolated-run" % hname.split("/")[1],
                          {"what": "a %d-thread schedule with %d preemption(s) makes a session's message/key differ from its isolated run" % (len(res), pre),
                           "replay": {"fn": "schedule", "harness": hname, "choices": list(run.choices)}, "expected": exp, "observed": res})

    n = 0
    for p in prefixes:
        try:
            n += sched.explore(lambda: thread_bodies(hname), bound, T.PKG, on_result, prefix=p, opcodes=_opc(hname), reduce=_fresh_import(hname))
        except sched.Divergence as e:
            # the execution path under the same schedule prefix changed between executions: state is carried over between
            # executions (e.g. a cache).  Not a verdict by itself - the interleaving enumerations decide.
            acc.note("%s: schedule replay diverged (%s): control flow depends on state carried over between executions" % (hname, e))
            acc.degrade("thread-schedule exploration incomplete for %s (replay divergence)" % hname)
    acc.seen((hname, "schedules", len(outcomes)))
    acc.inst(hname, schedules=n)
    return acc


def run_threads(acc, tier):
    bound = 1 if tier == "quick" else 2
    names = ["TH/T23-same-params", "TH/T23-S-S", "TH/T23+T29", "TH/T23+T23'", "TH/T23-redraw", "TH/T23-fresh-params", "TH/T23-fresh-params-S",
             "TH3/T23-three-sessions", "THF/Ed25519-first-use", "THF/Ed25519-first-use-S"] + \
            ([] if tier == "quick" else ["TH/T509+T23", "TH/E37", "TH3/T23-S", "TH/T509-redraw", "THF3/Ed25519-first-use", "TH/T23-same-params@opcode", "TH/T23+T23'@opcode",
                                         "TH/T23-redraw@opcode"])
    ok_names = []
    for n in names:
        try:
            thread_bodies(n)
            ok_names.append(n)
        except Exception as e:
            acc.degrade("thread harness %s unavailable: %s: %s" % (n, type(e).__name__, e))
    names = ok_names
    b1 = lambda n: 1 if (n == "TH/E37" or n.startswith("TH3/") or n.startswith("THF3/") or _opc(n)) else bound
    roots = core.pmap(_thread_root_task, [(n, b1(n)) for n in names])
    jobs = []
    for hname, res, alts, npoints in roots:
        b = b1(hname)
        exp = thread_expected(hname)
        acc.n(traces=1, states=1, transitions=npoints)
        if _fresh_import(hname) and exp != thread_reference(hname):
            acc.violation("C16/threads/%s/isolated-run-differs-from-definition" % hname.split("/")[1],
                          {"what": "sessions run one after the other on a freshly imported library do not produce the message/key defined by their arguments",
                           "replay": {"fn": "schedule", "harness": hname, "choices": []}, "expected": thread_reference(hname), "observed": exp})
        acc.extra.setdefault("threads", {})[hname] = {"scheduling_points_default_schedule": npoints, "preemption_bound": b, "first_level_alternatives": len(alts)}
        if res != exp:
            acc.violation("C16/threads/%s/differs-from-isolated-run" % hname.split("/")[1],
                          {"what": "even the default (non-preemptive) 2-thread schedule differs from the isolated runs",
                           "replay": {"fn": "schedule", "harness": hname, "choices": []}, "expected": exp, "observed": res})
        for ch in core.chunks(alts, 64 if (b > 1 or _opc(hname)) else 8):
            jobs.append((hname, b, ch))
    core.pmerge(_thread_task, jobs, acc)
    if len(acc.samples) < 6:
        acc.sample({"thread_harness": names[0], "bodies": [list(map(str, s)) for s in THREAD_HARNESSES[names[0]]], "preemption_bound": bound})


def run(tier, seed):
    acc = Acc()
    hs = harness_list(tier)
    tasks = []
    for name, specs, k in hs:
        try:
            H = get_harness(name, tier)
            for sp in specs:
                pinst(sp[0])
        except Exception as e:
            acc.degrade("harness %s unavailable: %s: %s" % (name, type(e).__name__, e))
            continue
        small = all(pinst(sp[0]).small for sp in specs)
        H.check_isolated(acc)
        depth = 3 if small else 2
        for p in valid_prefixes(H, depth):
            tasks.append(("il", (name, p, tier)))
    bfs_names = ["H3/T23/4step"] + (["H4/T23/3step"] if tier != "quick" else [])
    _H["BFS4/T23/4step"] = Harness("BFS4/T23/4step", [("T23", "A", b"pw1", 3, 1), ("T23", "B", b"pw1", 5, 0), ("T23'", "A", b"pw2", 6, 3), ("T23'", "B", b"pw2", 2, 2)], 4)
    _H["BFS5/T23+T29/3step"] = Harness("BFS5/T23+T29/3step", [("T23", "A", b"pw1", 3, 1), ("T23", "B", b"pw1", 5, 0), ("T23", "S", b"pw2", 6, None),
                                                            ("T29", "A", b"pw3", 1, 4), ("T29", "B", b"pw3", 2, 3)], 3)
    for n in ["BFS4/T23/4step"] + (["BFS5/T23+T29/3step"] if tier != "quick" else []):
        tasks.append(("bfs", (n, tier)))
    for nm, k in ([("Params1024", 3000), ("T23", 4000)] if tier == "quick" else [("Params1024", 9000), ("Params2048", 2500), ("ParamsEd25519", 1500), ("T23", 100000)]):
        tasks.append(("soak", (nm, k)))
    tasks.append(("dflt", (300 if tier == "quick" else 1500,)))
    for nm in (["T23", "ParamsEd25519"] if tier == "quick" else ["T23", "E37", "ParamsEd25519", "Params1024"]):
        for sd in "ABS":
            tasks.append(("mut", (nm, sd)))
    tasks.append(("mon", ("H3/T23/4step", tier)))
    tasks.append(("mon", ("H4=/E37/2step", tier)))
    if tier != "quick":
        tasks.append(("mon", ("H3/ParamsEd25519/2step", tier)))
    order = {"soak": -2, "dflt": -1, "bfs": 0, "mon": 1, "il": 2, "mut": 1}
    tasks.sort(key=lambda t: order[t[0]])
    core.pmerge(_dispatch, tasks, acc)
    run_threads(acc, tier)
    return acc


def _dispatch(t):
    return {"il": _interleave_task, "bfs": _bfs_task, "mon": _monitor_task, "soak": _soak_task, "dflt": _default_entropy_task,
            "mut": _mutable_args_task}[t[0]](t[1])


def replay(rec):
    r = T.unjson(rec["replay"])
    if r["fn"] == "interleaving":
        d = r["harness"]
        H = Harness(d["name"], [tuple(s[:5]) + ((tuple(s[5]),) if len(s) > 5 else ()) for s in d["specs"]], d["nsteps"])
        exp = H.isolated()
        ss = H.fresh()
        o = None
        for i in r["seq"]:
            o = H.step(ss, i)
            if o != exp[i][len(ss[i].out) - 1]:
                return o
        return o
    if r["fn"] == "mutable":
        return _mutable_probe(T.get(r["name"]), r["side"], r.get("which", "ids"))
    if r["fn"] in ("soak", "default"):
        return "re-run the check (long history)"
    if r["fn"] == "isolated":
        d = r["harness"]
        H = Harness(d["name"], [tuple(s[:5]) + ((tuple(s[5]),) if len(s) > 5 else ()) for s in d["specs"]], d["nsteps"])
        a = Acc()
        H.check_isolated(a)
        return sorted(a.viol)
    if not r["choices"] and _fresh_import(r["harness"]):
        return thread_expected(r["harness"])
    run_ = sched.Run(thread_bodies(r["harness"]), r["choices"], T.PKG, _opc(r["harness"]), _fresh_import(r["harness"]))
    return run_.run()


_thread_root_task.returns_tuple = True
