"""C07 - an instance is single-use over every call history.

Product exploration: (real instance) x (specification automaton dumped by TLC from
models/Lifecycle.tla) over a 12-event alphabet.  Stateful BFS to FIXPOINT on the canonical
product state (every history of any length), plus stateless enumeration of ALL histories up
to a depth as a cross-check that canonicalisation merged nothing it should not."""
import copy, inspect, itertools, json
from .. import target as T, core
from ..core import Acc
from ..ref import spake2 as RS, lifecycle
from . import common as C

LEVEL = "model_checking"
RULE = ("alphabet (14 events on the current instance): start; start while the entropy function raises; finish(valid); finish(own side); "
        "finish(unknown side); finish(reflected); finish(undecodable); finish(identity); finish(empty); finish(over-long); finish(truncated); "
        "serialize; restore-and-continue "
        "(current := from_serialized(serialize())); restore under another class. Stateful BFS to fixpoint over canonical (instance "
        "__dict__, entropy position, automaton state, scalars seen) - every history of any length - per (instance, class, scalar); "
        "stateless replay-from-scratch of ALL 14^k histories (k=4 quick on three classes + k=5 on one; k=5 / 6 thorough) cross-checked against "
        "the BFS state set. oracle: every observed (operation, outcome class) is a labelled edge of the TLC graph from the current "
        "automaton state; the xy_scalar reported by serialize() never changes along a history (restorations included). states = product "
        "states; transitions = events executed on the real code; traces_validated = complete histories replayed against the model. "
        "distinct_nontrivial = distinct (model state, action) edges exercised")
ASSUMPTIONS = ["models/Lifecycle.tla is the statement of C07 (TLC checks its invariants: at most one message / key per instance, none on a "
               "restored one, key needs start); permissive where the statement is silent",
               "BFS successors are computed on copy.copy snapshots of the instance; the stateless enumeration uses no copies"]
EXHAUSTIVE = True
EVENTS = ["start", "start_raise", "fin_valid", "fin_own_side", "fin_unknown_side", "fin_reflected", "fin_undecodable", "fin_identity",
          "fin_empty", "fin_overlong", "fin_truncated", "serialize", "restore", "restore_wrong"]
NAMED_API = {"start", "finish", "serialize", "from_serialized"}
_GRAPH = None


def discover_ops(cls):
    """public zero-argument methods of the class that the statement does not name ("any sequence of calls on one instance"):
    found by introspection of the tree under test, so an operation ADDED by a change (close(), reset(), with-support) joins the
    alphabet without the harness knowing its name.  Outcome of such a call: anything (automaton action Other_Any)."""
    ops = []
    for name in sorted(set(dir(cls))):
        if name in NAMED_API or (name.startswith("_") and name not in ("__enter__", "__exit__", "__call__", "__iter__", "__bool__", "__len__")):
            continue
        try:
            raw = inspect.getattr_static(cls, name)
            if isinstance(raw, (classmethod, staticmethod, property)) or not callable(getattr(cls, name)):
                continue
            sig = inspect.signature(getattr(cls, name))
        except Exception:
            continue
        params = list(sig.parameters.values())[1:]
        need = [p_ for p_ in params if p_.default is p_.empty and p_.kind in (p_.POSITIONAL_ONLY, p_.POSITIONAL_OR_KEYWORD, p_.KEYWORD_ONLY)]
        if name == "__exit__":
            ops.append("op:__exit__")
        elif not need:
            ops.append("op:" + name)
    return ops


def graph():
    global _GRAPH
    if _GRAPH is None:
        _GRAPH = lifecycle.load()
    return _GRAPH


def bounds(tier):
    return {"alphabet": EVENTS, "bfs": "fixpoint", "stateless_depth": {"quick": "4 (A,B,S) + 5 (A)", "thorough": "5 (A,B,S) + 6 (A)"}[tier],
            "worlds": worlds(tier)}


def worlds(tier):
    w = [("T23", s, x) for s in "ABS" for x in (0, 4)] + [("E109", s, x) for s in "ABS" for x in (0, 5)] + \
        [("ParamsEd25519", s, 7) for s in "ABS"] + [("Params1024", s, 7) for s in "ABS"]
    if tier != "quick":
        w += [("T29", s, 3) for s in "ABS"] + [("E37", s, 2) for s in "ABS"] + [("Params2048", "A", 1), ("Params3072", "S", 0), ("ParamsEd25519", "B", 0)]
    return w


class EntropyDown(Exception):
    pass


class Flaky:
    """entropy function whose behaviour the harness decides per event"""

    def __init__(self, answers):
        self.answers = answers
        self.calls = 0
        self.fail = False

    def __call__(self, n):
        self.calls += 1
        if self.fail:
            raise EntropyDown("entropy source unavailable")
        a = self.answers[0]
        if len(a) != n:
            a = (int.from_bytes(a, "big") % (1 << 8 * n)).to_bytes(n, "big")
        return a

    def clone(self):
        f = Flaky(self.answers)
        f.calls = self.calls
        return f


T.Flaky = Flaky


class World:
    def __init__(self, name, side, x):
        self.inst = T.get(name)
        self.side, self.x = side, x
        self.pw = b"pw"
        self.ids = C.ids_for(side, 1)
        R, rp = self.inst.ref, self.inst.rp
        self.w = R.pw_scalar(self.pw)
        xo, own = C.session_facts(self.inst, side, self.pw, self.ids, x)
        self.xo = xo
        menu = dict(C.inbound_menu(self.inst, side, self.w, xo, own=own))
        self.msgs = {"fin_valid": menu["valid"], "fin_own_side": menu["own-side"], "fin_unknown_side": menu["unknown-side"],
                     "fin_reflected": menu["reflected"], "fin_undecodable": menu["undecodable"],
                     "fin_identity": C.PEER[side].encode() + R.enc(R.identity), "fin_empty": b"",
                     "fin_overlong": menu["over-long"], "fin_truncated": menu["truncated"]}
        self.refclass = {}
        for ev, d in self.msgs.items():
            r = RS.finish(rp, side, self.pw, self.w, self.ids, xo, d)
            if own is not None and d[1:] == own[1:] and RS.side_outcome(side, d) == "accept":
                r = ("refuse", "reflection")
            self.refclass[ev] = "FinValid" if r[0] == "key" else "FinBad"
        self.other = {"A": "B", "B": "S", "S": "A"}[side]
        self.fam = self.inst.kind if self.inst.small else self.inst.name
        self.ops = discover_ops(T.styled_class(T.lib().cls[side]))
        self.events = EVENTS + self.ops

    def desc(self):
        return {"inst": self.inst.desc, "side": self.side, "x": self.x}


class St:
    __slots__ = ("cur", "ent", "model", "scalars", "bad")

    def canon(self):
        return (T.canon_instance(self.cur), self.ent.calls, self.model, tuple(sorted(self.scalars)))


def initial(W):
    s = St()
    s.ent = Flaky(W.inst.ref.entropy_for_scalar(W.x))
    s.cur = W.inst.new(W.side, W.pw, W.ids, entropy=s.ent)
    s.model = graph()["init"]
    s.scalars = frozenset()
    s.bad = None
    return s


def clone(s):
    t = St()
    t.ent = s.ent.clone()
    t.cur = T.snapshot(s.cur)
    if getattr(t.cur, "entropy_f", None) is s.ent:
        t.cur.entropy_f = t.ent
    t.model, t.scalars, t.bad = s.model, s.scalars, s.bad
    return t


def classify_exc(got, once):
    if got[1] == once:
        return "OnceErr"
    return "OtherErr"


def step_model(W, s, action, acc, hist, ev, observed):
    """follow the labelled edge; a missing edge is the violation"""
    E = graph()["edges"]
    k = (s.model, action)
    acc.n(transitions=1)
    if k not in E:
        allowed = sorted(a for (m, a) in E if m == s.model and a.split("_")[0] == action.split("_")[0])
        acc.violation("C07/%s/%s/%s-in-%s" % (W.fam, W.side, action, model_name(s.model)),
                      {"what": "after history %s the call %s ends as %s, which the specification automaton does not allow in state %s" %
                               (hist, ev, action, model_name(s.model)),
                       "replay": dict(W.desc(), history=list(hist) + [ev]), "expected": allowed, "observed": [action, observed]})
        s.bad = action
        return False
    acc.seen((s.model, action))
    s.model = E[k]
    return True


def model_name(m):
    return "%s%s%s%s%s" % (m[0], "+restored" if m[1] else "", "+keyOut" if m[2] else "", "+finTried" if m[3] else "", "+touched" if len(m) > 6 and m[6] else "")


def note_scalar(W, s, blob, acc, hist, ev):
    try:
        sc = json.loads(blob.decode("ascii")).get("xy_scalar")
    except Exception:
        return
    if sc is None:
        return
    if s.scalars and sc not in s.scalars:
        acc.violation("C07/%s/%s/scalar-changed" % (W.fam, W.side),
                      {"what": "the secret scalar reported by serialize() changed during the life of an instance (history %s)" % (list(hist) + [ev]),
                       "replay": dict(W.desc(), history=list(hist) + [ev]), "expected": sorted(s.scalars), "observed": sc})
    s.scalars = s.scalars | {sc}


def apply(W, s, ev, acc, hist):
    """execute one event on the real instance, judge it against the automaton, return the outcome label"""
    T.clock.advance(1800)          # half an hour passes between any two calls of a history
    cur = s.cur
    if ev.startswith("op:"):
        name = ev[3:]
        got = T.observe(lambda: getattr(cur, name)(None, None, None) if name == "__exit__" else getattr(cur, name)())
        step_model(W, s, "Other_Any", acc, hist, ev, got[0] if got[0] == "ok" else got)
        return "Other_Any"
    if ev in ("start", "start_raise"):
        s.ent.fail = (ev == "start_raise")
        got = T.observe(T.do_start, cur)
        s.ent.fail = False
        if got[0] == "ok":
            action = "Start_Msg"
        else:
            action = ("Start_" if ev == "start" else "StartRaise_") + classify_exc(got, "OnlyCallStartOnce")
        step_model(W, s, action, acc, hist, ev, got if got[0] != "ok" else "message")
        return action
    if ev.startswith("fin_"):
        got = T.observe(T.do_finish, cur, W.msgs[ev])
        cls = W.refclass[ev]
        if got[0] == "ok":
            action = cls + "_Key"
        else:
            action = cls + "_" + classify_exc(got, "OnlyCallFinishOnce")
        step_model(W, s, action, acc, hist, ev, got if got[0] != "ok" else "key")
        return action
    # serialize / restore / restore_wrong all begin with serialize()
    got = T.observe(T.do_serialize, cur)
    if got[0] == "ok":
        action = "Ser_Blob"
    elif got[1] == "SerializedTooEarly":
        action = "Ser_TooEarly"
    else:
        action = "Ser_OtherErr"
    if not step_model(W, s, action, acc, hist, ev, got if got[0] != "ok" else "blob"):
        return action
    if got[0] != "ok":
        return action
    note_scalar(W, s, got[1], acc, hist, ev)
    if ev == "serialize":
        return action
    if ev == "restore":
        r = T.observe(W.inst.restore, W.side, got[1])
        a2 = "Restore_Inst" if r[0] == "ok" else "Restore_Err"
        if step_model(W, s, a2, acc, hist, ev, r if r[0] != "ok" else "instance") and r[0] == "ok":
            s.cur = r[1]
        return action + "," + a2
    r = T.observe(W.inst.restore, W.other, got[1])
    a2 = "RestoreWrong_Err" if r[0] != "ok" else "RestoreWrong_Inst"
    step_model(W, s, a2, acc, hist, ev, r if r[0] != "ok" else "instance")
    return action + "," + a2


def bfs_world(W, acc, snapshot=True, events=None):
    """stateful search to fixpoint; returns {canon: min depth}"""
    events = events or W.events
    s0 = initial(W)
    seen = {s0.canon(): 0}
    frontier = [(s0, ())]
    depth = 0
    while frontier:
        nxt = []
        for s, hist in frontier:
            for ev in events:
                t = clone(s)
                apply(W, t, ev, acc, hist)
                if t.bad:
                    continue
                k = t.canon()
                if k not in seen:
                    seen[k] = depth + 1
                    nxt.append((t, hist + (ev,)))
        frontier = nxt
        depth += 1
        if depth > 120 or len(seen) > 20000:
            acc.cap("BFS stopped at depth %d / %d states without fixpoint" % (depth, len(seen)))
            break
    acc.n(states=len(seen))
    acc.extra.setdefault("bfs", {})["%s/%s/x=%s" % (W.inst.name, W.side, W.x)] = {"product_states": len(seen), "fixpoint_depth": depth}
    return seen


def _bfs_task(task):
    name, side, x = task[:3]
    style = task[3] if len(task) > 3 else None
    acc = Acc()
    inst, why = T.try_get(name)
    if inst is None:
        acc.degrade("%s unavailable: %s" % (name, why))
        return acc
    with T.call_style(style):
        W = World(name, side, x)
        seen = bfs_world(W, acc)
    acc.inst(name, product_states=len(seen))
    acc.n(traces=1)
    if side == "A" and style is None:
        acc.sample({"world": [name, side, x], "product_states": len(seen), "events": W.events})
    acc.extra.setdefault("discovered_operations", {})[side] = W.ops
    if style is not None:
        acc.extra.pop("bfs", None)
        acc.tag_env("style:" + style)
    return acc


def _stateless_task(task):
    name, side, x, depth, prefix = task
    acc = Acc()
    W = World(name, side, x)
    canons = set()
    n = 0
    for rest in itertools.product(EVENTS, repeat=depth - len(prefix)):
        hist = tuple(prefix) + rest
        s = initial(W)
        done = []
        for ev in hist:
            apply(W, s, ev, acc, done)
            done.append(ev)
            if s.bad:
                break
            canons.add(s.canon())
        n += 1
    acc.n(traces=n)
    acc.extra["stateless_canons"] = {"%s/%s/%s" % (name, side, x): sorted(core.h8(c).hex() for c in canons)}
    return acc


PREFORK = {}


def _prefork_task(task):
    """histories whose first part ran in the parent process and whose continuation runs here, in a forked child"""
    key, = task
    acc = Acc()
    name, side, x, prefix = key
    W = World(name, side, x)
    s = PREFORK[key]
    done = list(prefix)
    for rest in itertools.product(["start", "fin_valid", "fin_own_side", "serialize", "restore"], repeat=2):
        t = clone(s)
        h = list(done)
        for ev in rest:
            apply(W, t, ev, acc, h)
            h.append(ev)
            if t.bad:
                break
        acc.n(traces=1)
    return acc


def run(tier, seed):
    acc = Acc()
    quick = tier == "quick"
    PREFORK.clear()
    for name, side, x in (("T23", "A", 4), ("T23", "S", 4), ("ParamsEd25519", "B", 7)):
        if T.try_get(name)[0] is None:
            continue
        W0 = World(name, side, x)
        for prefix in (("start",), ("start", "fin_valid"), ("start", "serialize", "restore")):
            s = initial(W0)
            h = []
            for ev in prefix:
                apply(W0, s, ev, Acc(), h)
                h.append(ev)
            PREFORK[(name, side, x, prefix)] = s
    try:
        g = graph()
    except lifecycle.ModelError as e:
        raise T.HarnessError("specification automaton unavailable: %s" % e)
    acc.extra["model"] = dict(g["info"], actions=g["actions"])
    ws = []
    for w in worlds(tier):
        inst, why = T.try_get(w[0])
        if inst is None:
            acc.degrade("%s unavailable: %s" % (w[0], why))
        else:
            ws.append(w)
    tasks = [("bfs", w) for w in ws]
    # the same worlds with the application calling the library in another way (methods reached through the class, subclasses, ...)
    for st in ("unbound-calls", "subclass", "subclass-init", "positional", "password-keyword"):
        tasks += [("bfs", w + (st,)) for w in ws if w[0] in (("T23",) if quick else ("T23", "E109", "ParamsEd25519")) and (w[2] != 0 or not quick)]
    sl = []
    d_all, d_one = (4, 5) if quick else (5, 6)
    for side in "ABS":
        for p in itertools.product(EVENTS, repeat=2):
            sl.append(("sl", ("T23", side, 4, d_all, p)))
    for p in itertools.product(EVENTS, repeat=2):
        sl.append(("sl", ("T23", "A", 0, d_one, p)))
    tasks = sorted(tasks, key=lambda t: -T.hint(t[1][0]).ref.esize) + sl + [("prefork", (k,)) for k in sorted(PREFORK)]
    res = core.pmap(_dispatch, tasks)
    stateless = {}
    for r in res:
        sc = r.extra.pop("stateless_canons", None)
        if sc:
            for k, v in sc.items():
                stateless.setdefault(k, set()).update(v)
        acc.merge(r)
    # cross-check: every canonical state reached by replay-from-scratch histories is a BFS state and vice versa (up to the depth)
    for key, cs in stateless.items():
        name, side, x = key.split("/")
        W = World(name, side, int(x))
        seen = bfs_world(W, Acc(), events=EVENTS)
        depth = d_one if (side == "A" and int(x) == 0) else d_all
        bfs_set = {core.h8(c).hex() for c, d in seen.items() if d <= depth}
        cs = cs | {core.h8(initial(W).canon()).hex()}
        if cs != bfs_set:
            only_sl, only_bfs = len(cs - bfs_set), len(bfs_set - cs)
            acc.note("stateless/stateful cross-check differs for %s: %d states only stateless, %d only BFS" % (key, only_sl, only_bfs))
            acc.degrade("canonicalisation cross-check failed for %s" % key)
        acc.extra.setdefault("crosscheck", {})[key] = {"stateless_states": len(cs), "bfs_states_within_depth": len(bfs_set), "equal": cs == bfs_set}
    edges = g["edges"]
    acc.extra["model_edge_coverage"] = {"exercised": len(acc.distinct), "of": len(edges),
                                        "not_exercised": sorted("%s --%s" % (model_name(m), a) for (m, a) in edges if (m, a) not in acc.distinct)[:80]}
    return acc


def _dispatch(t):
    if t[0] == "prefork":
        return _prefork_task(t[1])
    return _bfs_task(t[1]) if t[0] == "bfs" else _stateless_task(t[1])


def replay(rec):
    r = T.unjson(rec["replay"])
    inst = T.build_inst(r["inst"])
    T._CACHE[inst.name] = inst
    W = World(inst.name, r["side"], r["x"])
    s = initial(W)
    out = []
    acc = Acc()
    done = []
    for ev in r["history"]:
        a = apply(W, s, ev, acc, done)
        done.append(ev)
        out.append([ev, a])
        if s.bad:
            break
    return out
