"""C18 - shipped parameter sets are sound prime-order groups as published.

The four shipped configurations (the complete list) checked by certificate-style number
theory against frozen constants; the IntegerGroup constructor over EVERY (p, q, g) with
p < 300 prime, q | p-1 prime, g in [0, p]."""
import math
from .. import target as T, core
from ..core import Acc
from ..ref import golden, numth
from ..ref.edwards import RefEdwards, TOY_CURVES, Q25519, L25519, D25519
from . import common as C

LEVEL = "exploration"
RULE = ("configurations = the 4 shipped parameter sets (complete list; every clause of the statement evaluated on the tree's constants and "
        "compared with frozen values) + every (p,q,g), p < 300 prime, q prime dividing p-1, 0 <= g <= p, handed to the IntegerGroup "
        "constructor (accepted => multiplicative order of g divides q, by enumeration) + on six wider moduli (64..256 bits, p = q*m+1) the generators whose q-th power is NOT 1 but agrees with 1 under a shortened comparison (mod 2^8..2^128, mod 2^31-1, mod 2^61-1, same low bytes, same high bytes, p-1), obtained as q-th roots, plus honest generators, their negatives and doubles. evaluations = clauses/constructor calls evaluated; "
        "distinct_nontrivial = distinct (configuration, clause) pairs that hold non-vacuously + distinct (p,q) for which both an accepted "
        "and a rejected generator were seen")
ASSUMPTIONS = ["primality of the 160..3072-bit constants: Miller-Rabin on 40 fixed bases + strong Lucas (deterministic, not an enumeration)",
               "#E(GF(2^255-19)) = 8L by certificate: a point of exact order 8L + Hasse interval, validated against brute-force counts on the toy curves",
               "frozen constants in mc/ref/golden.json"]
EXHAUSTIVE = True


_M61, _M31 = (1 << 61) - 1, (1 << 31) - 1
WIDE = [(64, 11), (64, 257), (96, 101), (128, 11), (160, 257), (256, 101)]       # (bits of p, q)


def bounds(tier):
    return {"constructor_p_below": 300 if tier == "quick" else 600, "constructor_wide_bits_q": WIDE, "shipped": T.SHIPPED}


def clause(acc, name, cl, ok, expected, observed):
    acc.n(evaluations=1, transitions=1)
    if ok:
        acc.seen((name, cl))
    else:
        acc.violation("C18/%s/%s" % (name, cl), {"what": "%s: clause '%s' does not hold" % (name, cl),
                      "replay": {"fn": "clause", "set": name, "clause": cl}, "expected": expected, "observed": observed})


def order_certificate(E):
    """(ok, witness): a point of exact order 8L exists and 8L is the only multiple of 8L in the Hasse interval"""
    Q, L = E.Q, E.L
    n = 8 * L
    lo, hi = Q + 1 - 2 * math.isqrt(Q) - 2, Q + 1 + 2 * math.isqrt(Q) + 2
    mults = [k * n for k in range(max(1, lo // n), hi // n + 2) if lo <= k * n <= hi]
    if mults != [n]:
        return False, {"multiples_in_hasse_interval": [str(m) for m in mults]}
    y = 2
    for _ in range(2000):
        x = E.x_from_y(y, 0)
        y += 1
        if x is None:
            continue
        P = (x, y - 1)
        if E.mul_raw(P, n) == (0, 1) and E.mul_raw(P, 4 * L) != (0, 1) and E.mul_raw(P, 8) != (0, 1) and E.mul_raw(P, n // 2) != (0, 1):
            # exact order 8L: 8L*P = 0 and (8L/r)*P != 0 for the prime divisors r in {2, L}
            return True, {"y": str(y - 1)}
    return False, {"no point of order 8L found": True}


def _int_set(name):
    """clauses on the shipped set, evaluated twice: as imported, and again after other IntegerGroup objects have been
    constructed on the same (p, q) with other generators (the shipped constants must not depend on the history of the process)"""
    acc = _int_set_once(name, "")
    inst, why = T.try_get(name)
    if inst is not None:
        grp = T.lib().groups.IntegerGroup
        R = inst.ref
        for g2 in (R.mul(R.g, 2), 1, 2, inst.rp.M, R.p - 1):
            T.observe(lambda: grp(p=R.p, q=R.q, g=g2))
            acc.n(evaluations=1, transitions=1)
        acc.merge(_int_set_once(name, "(after-other-constructor-calls)"))
        _use_operators(inst)
        acc.merge(_int_set_once(name, "(after-comparing-the-constants)"))
    return acc


def _int_set_once(name, tag):
    acc = Acc()
    inst, why = T.try_get(name)
    if inst is None:
        acc.degrade("%s unavailable: %s" % (name, why))
        return acc
    name = name + tag
    g = inst.group
    froz = golden.load()["groups"][inst.name]
    fp, fq, fg = int(froz["p"], 16), int(froz["q"], 16), int(froz["g"], 16)
    p, q = getattr(g, "p", None), getattr(g, "q", None)
    gen = T.observe(lambda: int.from_bytes(g.Base.to_bytes(), "big"))
    gen = gen[1] if gen[0] == "ok" else None
    clause(acc, name, "p-is-published", p == fp, "%x" % fp, "%x" % p if isinstance(p, int) else p)
    clause(acc, name, "q-is-published", q == fq, "%x" % fq, "%x" % q if isinstance(q, int) else q)
    clause(acc, name, "g-is-published", gen == fg, "%x" % fg, "%x" % gen if isinstance(gen, int) else gen)
    if isinstance(p, int) and isinstance(q, int) and isinstance(gen, int):
        clause(acc, name, "p-prime", numth.is_prime(p), True, False)
        clause(acc, name, "q-prime", numth.is_prime(q), True, False)
        clause(acc, name, "q-divides-p-1", (p - 1) % q == 0, 0, (p - 1) % q)
        clause(acc, name, "g-order-exactly-q", gen % p != 1 and pow(gen, q, p) == 1 and 1 < gen < p, "g != 1, g^q = 1", [gen % p == 1, pow(gen, q, p) == 1])
        clause(acc, name, "g-is-fips186-construction", gen == pow(2, (p - 1) // q, p), "2^((p-1)/q)", "other")
        clause(acc, name, "order()-is-q", T.observe(g.order) == ("ok", q), q, T.observe(g.order))
    _mns(acc, inst, name)
    acc.n(states=1, traces=1)
    acc.sample({"set": name, "p_bits": p.bit_length() if isinstance(p, int) else None, "q_bits": q.bit_length() if isinstance(q, int) else None})
    return acc


def _use_operators(inst):
    """distinctness of Base, Zero, M, N, S through the element API's own == / != (the interface documents them); results are
    judged by C13 - here only the constants are re-evaluated afterwards (they must not depend on having been compared)"""
    P = inst.params
    es = [P.group.Base, P.group.Zero, P.M, P.N, P.S]
    out = []
    for a in es:
        for b in es:
            out.append((T.observe(lambda: a == b), T.observe(lambda: a != b)))
        T.observe(lambda: a.add(P.group.Zero))
        T.observe(lambda: a.scalarmult(1))
    return out


def _mns(acc, inst, name):
    R = inst.ref
    froz = golden.load()["MNS"][inst.name]
    P = inst.params
    encs = {}
    for k in "MNS":
        e = T.observe(lambda: getattr(P, k).to_bytes())
        encs[k] = e[1] if e[0] == "ok" else None
        el = R.dec_strict(encs[k]) if encs[k] is not None else None
        clause(acc, name, "%s-in-prime-order-subgroup" % k, el is not None and R.member(el), "member", e)
        clause(acc, name, "%s-not-identity" % k, el is not None and not R.is_identity(el), "non-identity", e)
        clause(acc, name, "%s-is-published" % k, encs[k] is not None and encs[k].hex() == froz[k], froz[k], e)
    G = T.observe(P.group.Base.to_bytes)
    Gb = G[1] if G[0] == "ok" else None
    vals = [encs["M"], encs["N"], encs["S"], Gb]
    clause(acc, name, "M-N-S-G-pairwise-distinct", None not in vals and len(set(vals)) == 4, "4 distinct", len(set(vals)))


def _ed(acc, name="ParamsEd25519"):
    L = T.lib()
    inst, why = T.try_get("ParamsEd25519")
    if inst is None:
        acc.degrade("%s unavailable: %s" % (name, why))
        return
    eb = L.eb
    Q, Lo, d, B = getattr(eb, "Q", None), getattr(eb, "L", None), getattr(eb, "d", None), getattr(eb, "B", None)
    clause(acc, name, "field-is-2^255-19", Q == Q25519, str(Q25519), str(Q))
    clause(acc, name, "L-is-published", Lo == L25519, str(L25519), str(Lo))
    clause(acc, name, "L-prime", isinstance(Lo, int) and numth.is_prime(Lo), True, False)
    clause(acc, name, "Q-prime", isinstance(Q, int) and numth.is_prime(Q), True, False)
    clause(acc, name, "d-is--121665/121666", isinstance(d, int) and isinstance(Q, int) and d % Q == D25519 % Q, str(D25519), str(d))
    E = RefEdwards()
    clause(acc, name, "d-non-square--1-square", pow(D25519, (Q25519 - 1) // 2, Q25519) == Q25519 - 1 and pow(Q25519 - 1, (Q25519 - 1) // 2, Q25519) == 1, True, False)
    by = 4 * pow(5, -1, Q25519) % Q25519
    clause(acc, name, "B-is-rfc8032-base-point", B is not None and list(B) == [E.B[0], E.B[1]] and E.B[1] == by and E.B[0] % 2 == 0, [str(E.B[0]), str(E.B[1])], [str(b) for b in B] if B else B)
    clause(acc, name, "Base-encoding", T.observe(inst.group.Base.to_bytes) == ("ok", E.enc(E.B)), E.enc(E.B).hex(), T.observe(lambda: inst.group.Base.to_bytes().hex()))
    clause(acc, name, "L*B-is-identity", E.mul_raw(E.B, L25519) == (0, 1) and E.B != (0, 1), True, False)
    clause(acc, name, "order()-is-L", T.observe(inst.group.order) == ("ok", L25519), str(L25519), T.observe(inst.group.order))
    ok, wit = order_certificate(E)
    clause(acc, name, "curve-has-8L-points(certificate)", ok, True, wit)
    # the tree's own constants define the same curve (the library's arithmetic on it is C12/C13's subject)
    if isinstance(Q, int) and isinstance(Lo, int) and isinstance(d, int) and (Q, Lo, d % Q) != (Q25519, L25519, D25519):
        try:
            E2 = RefEdwards(Q, d, Lo, B=tuple(B))
            ok2, wit2 = order_certificate(E2)
        except Exception as e:
            ok2, wit2 = False, str(e)
        clause(acc, name, "tree-constants-define-a-curve-with-8L-points", ok2, True, wit2)
    clause(acc, name, "default-parameter-set", getattr(L.sp, "DefaultParams", None) is inst.params, "ParamsEd25519", "other")
    exported = [n for n in T.SHIPPED if hasattr(L.pall, n)]
    clause(acc, name, "all-four-sets-exported", exported == T.SHIPPED, T.SHIPPED, exported)
    clause(acc, name, "Zero-is-identity", T.observe(inst.group.Zero.to_bytes) == ("ok", E.enc((0, 1))), E.enc((0, 1)).hex(), T.observe(lambda: inst.group.Zero.to_bytes().hex()))
    _mns(acc, inst, name)
    # certificate logic validated against brute force on the toy curves
    for (tq, td, tl) in TOY_CURVES:
        Et = RefEdwards(tq, td, tl)
        okc, _ = order_certificate(Et) if 4 * math.isqrt(tq) + 4 < 8 * tl else (None, None)
        brute = len(Et.points()) == 8 * tl
        acc.n(evaluations=1)
        if okc is not None and okc != brute:
            acc.note("certificate logic disagrees with brute-force count on toy curve Q=%d (harness self-check)" % tq)
            acc.degrade("order certificate self-check failed on toy curve %d" % tq)
        else:
            acc.seen(("toy-certificate", tq, okc))
    if not name.endswith(")"):
        _use_operators(inst)
        _ed(acc, "ParamsEd25519(after-comparing-the-constants)")
    acc.n(states=1, traces=1)
    acc.sample({"set": name, "clauses": ["field", "L prime", "B", "L*B=0", "#E=8L certificate", "M,N,S"]})


def _concurrent_first_use(task):
    """a NEW parameter-set object over a shipped group whose M, N, S are first used by two threads at once: all schedules with
    at most 1 (quick) / 2 (thorough) preemptions at line granularity - the constants must come out as published whatever the schedule"""
    name, bound = task
    from .. import sched
    acc = Acc()
    L = T.lib()
    inst, why = T.try_get(name)
    if inst is None:
        return acc
    froz = golden.load()["MNS"][name]
    n = [0]
    # which constants each thread touches first decides which schedules can go wrong: three access patterns
    for pat in ((("S",), ("M", "N")), (("N", "S"), ("M",)), (("M", "N", "S"), ("S", "N", "M"))):
        want = [("ok", tuple(froz[k] for k in pat[0])), ("ok", tuple(froz[k] for k in pat[1]))]

        def make(pat=pat):
            P = L.params._Params(inst.group)
            return [lambda: tuple(getattr(P, k).to_bytes().hex() for k in pat[0]),
                    lambda: tuple(getattr(P, k).to_bytes().hex() for k in pat[1])]

        for b in make():
            b()

        def on_result(res, run, want=want, pat=pat):
            n[0] += 1
            acc.n(transitions=len(run.points))
            if res != want:
                acc.violation("C18/%s/constants-after-concurrent-first-use" % name,
                              {"what": "M, N, S of a new parameter set differ from the published constants when two threads make the first use of it (access pattern %s)" % (pat,),
                               "replay": {"fn": "clause", "set": name, "clause": "constants-after-concurrent-first-use"}, "expected": want, "observed": res})
        try:
            sched.explore(make, bound, T.PKG, on_result)
        except sched.Divergence as e:
            acc.note("%s: schedule replay diverged in the concurrent-first-use exploration (%s)" % (name, e))
    acc.n(states=n[0], traces=n[0])
    acc.seen((name, "concurrent-first-use", n[0] > 0))
    acc.extra.setdefault("concurrent_first_use_schedules", {})[name] = n[0]
    return acc


def _ctor_task(task):
    p, q = task
    grp = T.lib().groups.IntegerGroup
    acc = Acc()
    acc_ok = rej = 0
    for g in range(0, p + 1):
        got = T.observe(lambda: grp(p=p, q=q, g=g))
        acc.n(evaluations=1, transitions=1, states=1)
        if got[0] == "ok":
            acc_ok += 1
            o = numth.mult_order(g, p)
            if o == 0 or q % o != 0:
                acc.violation("C18/constructor/accepts-bad-generator", {"what": "IntegerGroup(p,q,g) accepts a generator whose order does not divide q",
                              "replay": {"fn": "ctor", "p": p, "q": q, "g": g}, "expected": "raises", "observed": ("ok", "order %d" % o)})
        else:
            rej += 1
            o = numth.mult_order(g, p)
            if o == q and 1 < g < p:
                acc.violation("C18/constructor/rejects-good-generator", {"what": "IntegerGroup(p,q,g) refuses a generator of order exactly q",
                              "replay": {"fn": "ctor", "p": p, "q": q, "g": g}, "expected": "group", "observed": got})
    if acc_ok and rej:
        acc.seen(("ctor", p, q))
    acc.n(traces=1)
    if p == 23:
        acc.sample({"constructor": {"p": p, "q": q}, "accepted": acc_ok, "rejected": rej})
    return acc


def typed_generators(p):
    """generator arguments that are not plain ints: elements of every IntegerGroup over the same field (any order dividing p-1,
    prime or not), of another field, and number-like objects"""
    grp = T.lib().groups.IntegerGroup
    out = []
    for q2 in [d for d in range(2, p) if (p - 1) % d == 0]:
        g2 = next((h for h in range(2, p) if numth.mult_order(h, p) == q2), None)
        if g2 is None:
            continue
        G2 = T.observe(lambda: grp(p=p, q=q2, g=g2))
        if G2[0] != "ok":
            continue
        for k in range(1, min(q2, 12)):
            out.append(("element of IntegerGroup(%d,%d,%d): Base^%d" % (p, q2, g2, k), G2[1].Base.scalarmult(k)))
    other = T.observe(lambda: grp(p=47, q=23, g=2) if p != 47 else grp(p=23, q=11, g=2))
    if other[0] == "ok":
        out.append(("Base of a group over another field", other[1].Base))
    import fractions, decimal
    out += [("True", True), ("2.0", 2.0), ("'2'", "2"), ("b'\\x02'", b"\x02"), ("Fraction(2)", fractions.Fraction(2)), ("Decimal(2)", decimal.Decimal(2))]
    return out


def _ctor_typed_task(task):
    """the constructor clause for generator arguments of other types: whatever it accepts must yield a group whose Base has order
    dividing q"""
    p, q = task
    grp = T.lib().groups.IntegerGroup
    acc = Acc()
    for i, (what, g) in enumerate(typed_generators(p)):
        got = T.observe(lambda: grp(p=p, q=q, g=g))
        acc.n(evaluations=1, transitions=1, states=1)
        acc.seen(("ctor-typed", what.split(":")[0].split(" of ")[0], got[0]))
        if got[0] != "ok":
            continue
        v = T.observe(lambda: int.from_bytes(got[1].Base.to_bytes(), "big"))
        if v[0] != "ok":
            # a number-like object the arithmetic happens to accept (e.g. Decimal): judge the VALUE it stands for, if it has one
            v = T.observe(lambda: int(g))
            if v[0] != "ok" or v[1] != g:
                acc.note("IntegerGroup accepts g=<%s> but the resulting Base cannot be encoded; no numeric value to judge" % what)
                continue
        o = numth.mult_order(v[1] % p, p) if isinstance(v[1], int) and v[1] % p else 0
        if o == 0 or q % o != 0:
            acc.violation("C18/constructor/accepts-bad-generator-object", {"what": "IntegerGroup(p=%d, q=%d, g=<%s>) is accepted although the resulting generator has order %d, which does not divide q" % (p, q, what, o),
                          "replay": {"fn": "ctor_typed", "p": p, "q": q, "index": i}, "expected": "raises", "observed": ("ok", "generator %s of order %d" % (v[1] if v[0] == "ok" else v, o))})
    acc.n(traces=1)
    return acc


# ---------------------------------------------------------------------------
# constructor on wide moduli: generators whose q-th power only LOOKS like the identity



def _wide_prime(bits, q):
    """smallest prime p = q*m + 1 above 2^(bits-1) + 12345 with gcd(q, m) = 1 (so that q-th roots are one pow())"""
    m = ((1 << (bits - 1)) + 12345) // q + 1
    while True:
        p = q * m + 1
        if m % q and numth.is_prime(p):
            return p, m
        m += 1


def _confusable_residues(p):
    """values t != 1 of g^q mod p that a shortened comparison would take for 1"""
    out = []
    for lab, M in (("mod 2^8", 1 << 8), ("mod 2^16", 1 << 16), ("mod 2^32", 1 << 32), ("mod 2^63", 1 << 63), ("mod 2^64", 1 << 64), ("mod 2^31-1", _M31),
                   ("mod 2^61-1", _M61), ("mod 2^128", 1 << 128)):
        if M < p:
            out.append((lab, [1 + k * M for k in range(1, 4000) if 1 + k * M < p]))
    bl = (p.bit_length() + 7) // 8
    out.append(("low bytes differ only", [1 + (k << (8 * (bl - 1))) for k in range(1, 256) if 1 + (k << (8 * (bl - 1))) < p]))   # same low bytes
    out.append(("small", list(range(2, 300))))                                   # same high bytes as 1
    out.append(("p-1 and neighbours", [p - 1, p - 2, (p + 1) // 2]))
    return out


def _ctor_wide_task(task):
    bits, q = task
    grp = T.lib().groups.IntegerGroup
    acc = Acc()
    p, m = _wide_prime(bits, q)
    e = pow(q, -1, m)
    acc_ok = rej = 0

    def feed(g, why):
        nonlocal acc_ok, rej
        got = T.observe(lambda: grp(p=p, q=q, g=g))
        acc.n(evaluations=1, transitions=1, states=1)
        good = 1 < g % p and pow(g % p, q, p) == 1
        if got[0] == "ok":
            acc_ok += 1
            if pow(g % p, q, p) != 1 or g % p == 0:
                acc.violation("C18/constructor/accepts-bad-generator", {"what": "IntegerGroup(p,q,g) on a %d-bit modulus accepts a generator whose order does not divide q (g^q mod p %s)" % (bits, why),
                              "replay": {"fn": "ctor_wide", "p": p, "q": q, "g": g}, "expected": "raises", "observed": ("ok", "g^q mod p = %d" % pow(g % p, q, p))})
        else:
            rej += 1
            if good and 1 < g < p:
                acc.violation("C18/constructor/rejects-good-generator", {"what": "IntegerGroup(p,q,g) on a %d-bit modulus refuses a generator of order exactly q" % bits,
                              "replay": {"fn": "ctor_wide", "p": p, "q": q, "g": g}, "expected": "group", "observed": got})

    for lab, ts in _confusable_residues(p):
        found = 0
        for t in ts:
            if pow(t, m, p) != 1:            # not a q-th power
                continue
            g = pow(t, e, p)
            assert pow(g, q, p) == t
            feed(g, "= 1 " + lab if lab.startswith("mod") else "is %s" % lab)
            found += 1
            if found >= 3:
                break
        if found:
            acc.seen(("ctor_wide", bits, q, lab))
    # honest generators and their unreduced / shifted representatives
    for h in (2, 3, 5, 7):
        g = pow(h, m, p)
        if g != 1:
            feed(g, "honest")
            feed(p - g, "negated honest generator")       # order 2q
            feed(g * 2 % p, "honest generator times 2")
    if acc_ok and rej:
        acc.seen(("ctor_wide", bits, q))
    acc.n(traces=1)
    return acc


def run(tier, seed):
    acc = Acc()
    core.pmerge(_int_set, ["Params1024", "Params2048", "Params3072"], acc)
    _ed(acc)
    top = bounds(tier)["constructor_p_below"]
    tasks = []
    for p in range(3, top):
        if not numth.is_prime_trial(p):
            continue
        for q in range(2, p):
            if (p - 1) % q == 0 and numth.is_prime_trial(q):
                tasks.append((p, q))
    core.pmerge(_ctor_task, tasks, acc)
    core.pmerge(_ctor_wide_task, WIDE, acc)
    core.pmerge(_ctor_typed_task, [t for t in tasks if t[0] in (23, 29, 31, 43, 47, 59, 67, 71, 79)], acc)
    # integer sets only: their derivation is a handful of source lines (pow() is one step); the Ed25519 try-and-increment loop is
    # tens of thousands of line events per element and is left to C16's thread harnesses on toy groups
    core.pmerge(_concurrent_first_use, [("Params1024", 1)] if tier == "quick" else [("Params1024", 2), ("Params2048", 2), ("Params3072", 1)], acc)
    return acc


def replay(rec):
    r = T.unjson(rec["replay"])
    if r["fn"] == "ctor_wide":
        got = T.observe(lambda: T.lib().groups.IntegerGroup(p=r["p"], q=r["q"], g=r["g"]))
        return got if got[0] != "ok" else ("ok", "g^q mod p = %d" % pow(r["g"] % r["p"], r["q"], r["p"]))
    if r["fn"] == "ctor_typed":
        what, g = typed_generators(r["p"])[r["index"]]
        got = T.observe(lambda: T.lib().groups.IntegerGroup(p=r["p"], q=r["q"], g=g))
        if got[0] != "ok":
            return got
        v = int.from_bytes(got[1].Base.to_bytes(), "big")
        return ("ok", "generator %s of order %d" % (v, numth.mult_order(v, r["p"])))
    if r["fn"] == "ctor":
        got = T.observe(lambda: T.lib().groups.IntegerGroup(p=r["p"], q=r["q"], g=r["g"]))
        return got if got[0] != "ok" else ("ok", "order %d" % numth.mult_order(r["g"], r["p"]))
    acc = Acc()
    if r["set"] == "ParamsEd25519":
        _ed(acc)
    else:
        acc = _int_set(r["set"].split("(")[0])
    k = "C18/%s/%s" % (r["set"], r["clause"])
    return acc.viol[k]["records"][0]["observed"] if k in acc.viol else "clause holds"
