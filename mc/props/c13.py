"""C13 - group elements obey the group axioms through the element API, in every group.

For every small group: closure (BFS to fixpoint) of element REPRESENTATIONS (type name,
encoding) reachable from Base, Zero, arbitrary_element, bytes_to_element under add /
scalarmult(n in [-q,2q]) / negate / subtract; then all pairs, triples and scalars against
Z_q through the reference discrete-log table."""
import itertools
from .. import target as T, core
from ..core import Acc
from . import common as C

LEVEL = "model_checking"
RULE = ("states = element representations (type name, encoding) in the closure under the element API, to fixpoint, per small group; "
        "transitions = API calls whose result was compared with Z_q via the reference discrete log: all pairs for add/==/!=/subtract, "
        "all triples for associativity, all (element, n) with n in [-q,2q] for scalarmult, all (n,m) in [-q,2q]^2 for the scalar laws "
        "(edge pairs only when q > 40); shipped groups: edge multiples of Base against the independent arithmetic. "
        "distinct_nontrivial = distinct (group, law, operand-type pattern) combinations exercised")
ASSUMPTIONS = ["reference arithmetic mc/ref (modular ints / affine Edwards) defines the group",
               "toy Edwards instances run the library's own code with patched module globals"]
EXHAUSTIVE = True


def bounds(tier):
    return {"scalars": "[-q, 2q]", "closure": "fixpoint", "groups": (C.SMALL_INT_QUICK + C.SMALL_ED_QUICK) if tier == "quick"
            else (C.SMALL_INT_ALL + C.SMALL_ED_ALL)}


class World:
    def __init__(self, inst, acc):
        self.inst, self.acc = inst, acc
        self.R = inst.ref
        self.q = inst.q
        self.reps = {}     # (typename, enc) -> (object, dlog)
        self.twins = {}    # same representation, a different object (value vs identity equality)
        self.order = []

    def fam(self):
        return self.inst.kind if self.inst.small else self.inst.name

    def viol(self, law, what, call, expected, observed):
        self.acc.violation("C13/%s/%s" % (self.fam(), law),
                           {"what": what, "inst": self.inst.desc, "replay": {"inst": self.inst.desc, "call": call},
                            "expected": expected, "observed": observed})

    def dlog_of_bytes(self, b):
        R = self.R
        if R.kind == "int":
            if len(b) != R.esize:
                return None
            return R.dlog(int.from_bytes(b, "big"))
        P = R.dec_curve(b)
        return None if P is None else R.dlog(P)

    def key(self, e):
        return (type(e).__name__, e.to_bytes())

    def admit(self, e, expect_dlog, law, call):
        """result of an API call: must be an element with the expected discrete log; returns rep key"""
        self.acc.n(transitions=1)
        got = T.observe(lambda: e.to_bytes())
        if got[0] != "ok":
            self.viol(law + "-not-encodable", "result of %s cannot be encoded" % law, call, "an element", got)
            return None
        d = self.dlog_of_bytes(got[1])
        if d is None or d != expect_dlog % self.q:
            self.viol(law, "%s does not agree with Z_q (discrete logs)" % law, call, expect_dlog % self.q, d)
            return None
        k = (type(e).__name__, got[1])
        if k not in self.reps:
            self.reps[k] = (e, d)
            self.order.append(k)
        elif self.reps[k][0] is not e and k not in self.twins:
            self.twins[k] = e
        return k

    def describe(self, k):
        return [k[0], self.reps[k][1]]


def _call_desc(W, op, *ks):
    """json description of a call on representatives, replayable: elements are described by
    how they are first obtained (their derivation)"""
    return {"op": op, "args": [a if isinstance(a, int) else {"type": a[0], "enc": a[1]} for a in ks]}


def closure(W, seeds_extra):
    inst, R, g, q, acc = W.inst, W.R, W.inst.group, W.q, W.acc
    # roots
    roots = [("Base", lambda: g.Base, 1), ("Zero", lambda: g.Zero, 0)]
    for seed in (b"M", b"N", b"symmetric", b"x") + tuple(seeds_extra):
        try:
            d = R.dlog(R.arbitrary(seed))
        except Exception:
            continue
        roots.append(("arbitrary_element(%r)" % seed, (lambda s=seed: g.arbitrary_element(s)), d))
    for k, e in enumerate(R.elements()):
        if R.is_identity(e) and R.refuses_identity:
            continue
        b = R.enc(e)
        roots.append(("bytes_to_element(%s)" % b.hex(), (lambda b=b: g.bytes_to_element(b)), k))
    for name, mk, d in roots:
        got = T.observe(mk)
        if got[0] != "ok":
            W.viol("obtain", "%s raises" % name.split("(")[0], {"op": name}, "an element", got)
            continue
        W.admit(got[1], d, "obtain", {"op": name})
    # BFS closure
    ns = list(range(-q, 2 * q + 1))
    done_unary, done_pairs = set(), set()
    changed = True
    while changed:
        changed = False
        keys = list(W.order)
        for ka in keys:
            if ka in done_unary:
                continue
            done_unary.add(ka)
            a, da = W.reps[ka]
            for n in ns:
                got = T.observe(a.scalarmult, n)
                if got[0] != "ok":
                    W.viol("scalarmult-raises", "scalarmult(n) raises for an integer n on an API-obtainable element",
                           _call_desc(W, "scalarmult", ka, n), "n*P", got)
                    acc.n(transitions=1)
                    continue
                before = len(W.order)
                W.admit(got[1], da * n, "scalarmult", _call_desc(W, "scalarmult", ka, n))
                changed |= len(W.order) != before
                acc.seen((W.fam(), "scalarmult", ka[0], n < 0, n >= q))
            if hasattr(a, "negate"):
                got = T.observe(a.negate)
                if got[0] != "ok":
                    W.viol("negate-raises", "negate() raises", _call_desc(W, "negate", ka), "-P", got)
                else:
                    before = len(W.order)
                    W.admit(got[1], -da, "negate", _call_desc(W, "negate", ka))
                    changed |= len(W.order) != before
                acc.seen((W.fam(), "negate", ka[0]))
        keys = list(W.order)
        for ka in keys:
            for kb in keys:
                if (ka, kb) in done_pairs:
                    continue
                done_pairs.add((ka, kb))
                (a, da), (b, db) = W.reps[ka], W.reps[kb]
                got = T.observe(a.add, b)
                if got[0] != "ok":
                    W.viol("add-raises", "add() raises on two API-obtainable elements", _call_desc(W, "add", ka, kb), "P+Q", got)
                    acc.n(transitions=1)
                else:
                    before = len(W.order)
                    W.admit(got[1], da + db, "add", _call_desc(W, "add", ka, kb))
                    changed |= len(W.order) != before
                acc.seen((W.fam(), "add", ka[0], kb[0]))
                if hasattr(a, "subtract"):
                    got = T.observe(a.subtract, b)
                    if got[0] != "ok":
                        W.viol("subtract-raises", "subtract() raises on two API-obtainable elements",
                               _call_desc(W, "subtract", ka, kb), "P-Q", got)
                        acc.n(transitions=1)
                    else:
                        before = len(W.order)
                        W.admit(got[1], da - db, "subtract", _call_desc(W, "subtract", ka, kb))
                        changed |= len(W.order) != before
                    acc.seen((W.fam(), "subtract", ka[0], kb[0]))
    acc.n(states=len(W.order))
    acc.inst(inst.name, representations=len(W.order), types=len({k[0] for k in W.order}), twins=len(W.twins))


def laws(W, full_scalars):
    inst, R, q, acc = W.inst, W.R, W.q, W.acc
    keys = list(W.order)
    objs = [W.reps[k] for k in keys]
    zero_keys = [k for k in keys if W.reps[k][1] == 0]
    # equality = value equality, commutativity
    for (ka, (a, da)), (kb, (b, db)) in itertools.product(zip(keys, objs), repeat=2):
        b = W.twins.get(kb, b)    # an equal-valued but distinct object where one exists
        eq = T.observe(lambda: a == b)
        ne = T.observe(lambda: a != b)
        acc.n(transitions=2)
        want = (da == db)
        if eq != ("ok", want) or ne != ("ok", not want):
            W.viol("equality", "== / != are not value equality", _call_desc(W, "eq", ka, kb), [want, not want], [eq, ne])
        acc.seen((W.fam(), "eq", ka[0], kb[0], want))
        ab = T.observe(lambda: a.add(b).to_bytes())
        ba = T.observe(lambda: b.add(a).to_bytes())
        acc.n(transitions=2)
        if ab != ba:
            W.viol("commutativity", "a.add(b) and b.add(a) encode differently", _call_desc(W, "add", ka, kb), ab, ba)
    # associativity: all triples (capped by element count for the largest groups)
    tri = keys if len(keys) <= 40 else keys[:8] + keys[len(keys) // 2: len(keys) // 2 + 8] + keys[-8:]
    for ka, kb, kc in itertools.product(tri, repeat=3):
        a, b, c = W.reps[ka][0], W.reps[kb][0], W.reps[kc][0]
        l = T.observe(lambda: a.add(b).add(c).to_bytes())
        r = T.observe(lambda: a.add(b.add(c)).to_bytes())
        acc.n(transitions=4)
        if l != r or l[0] != "ok":
            W.viol("associativity", "(a+b)+c != a+(b+c)", {"op": "assoc", "args": [_call_desc(W, "x", ka, kb, kc)]}, l, r)
    if len(keys) > 40:
        acc.note("%s: associativity on %d^3 of %d^3 triples (rest is covered through discrete logs of every pair sum)" %
                 (inst.name, len(tri), len(keys)))
    # scalar laws
    ns = list(range(-q, 2 * q + 1))
    pairs = list(itertools.product(ns, repeat=2)) if full_scalars else \
        list(itertools.product([-q, -q + 1, -2, -1, 0, 1, 2, q - 1, q, q + 1, 2 * q - 1, 2 * q], repeat=2))
    sub = keys if len(keys) <= 16 else keys[:6] + keys[-6:]
    for ka in sub:
        a, da = W.reps[ka]
        table = {}
        for n in ns:
            got = T.observe(lambda: a.scalarmult(n).to_bytes())
            table[n] = got
            acc.n(transitions=1)
        for n in ns:
            # periodicity
            if table[n] != table.get(n % q, table[n]):
                W.viol("periodicity", "scalarmult(n) differs from scalarmult(n mod q)", _call_desc(W, "scalarmult", ka, n), table[n % q], table[n])
        for n, m in pairs:
            acc.n(transitions=2)
            # (n+m)P = nP + mP
            s = n + m
            lhs = table.get(s) or T.observe(lambda: a.scalarmult(s).to_bytes())
            rhs = T.observe(lambda: a.scalarmult(n).add(a.scalarmult(m)).to_bytes())
            if lhs != rhs or lhs[0] != "ok":
                W.viol("distributivity-scalar-add", "(n+m)P != nP + mP", _call_desc(W, "dist", ka, n, m), lhs, rhs)
            # (nm)P = n(mP)
            lhs = T.observe(lambda: a.scalarmult(n * m).to_bytes())
            rhs = T.observe(lambda: a.scalarmult(m).scalarmult(n).to_bytes())
            if lhs != rhs or lhs[0] != "ok":
                W.viol("scalar-multiplication", "(nm)P != n(mP)", _call_desc(W, "mulmul", ka, n, m), lhs, rhs)
        acc.seen((W.fam(), "scalar-laws", ka[0]))
    # n(P+Q) = nP + nQ
    nsub = ns if full_scalars else [-q, -1, 0, 1, 2, q - 1, q, q + 1, 2 * q]
    psub = keys if len(keys) <= 16 else keys[:5] + keys[-5:]
    for ka, kb in itertools.product(psub, repeat=2):
        a, b = W.reps[ka][0], W.reps[kb][0]
        for n in nsub:
            lhs = T.observe(lambda: a.add(b).scalarmult(n).to_bytes())
            rhs = T.observe(lambda: a.scalarmult(n).add(b.scalarmult(n)).to_bytes())
            acc.n(transitions=2)
            if lhs != rhs or lhs[0] != "ok":
                W.viol("distributivity-element-add", "n(P+Q) != nP + nQ", _call_desc(W, "distel", ka, kb, n), lhs, rhs)
    # codec round trip of every representation
    for k in keys:
        e, d = W.reps[k]
        enc = k[1]
        acc.n(transitions=1)
        if d == 0 and R.refuses_identity:
            continue
        rt = T.observe(lambda: inst.group.bytes_to_element(enc).to_bytes())
        if rt != ("ok", enc):
            W.viol("roundtrip", "an API-obtainable non-identity element does not decode from its own encoding",
                   _call_desc(W, "roundtrip", k), enc, rt)
    acc.n(traces=1)
    acc.sample({"inst": inst.name, "representations": [W.describe(k) for k in keys[:6]], "closure_size": len(keys)})


def _small_task(task):
    name, tier = task
    acc = Acc()
    inst, why = T.try_get(name)
    if inst is None:
        acc.degrade("%s unavailable: %s" % (name, why))
        return acc
    W = World(inst, acc)
    closure(W, ())
    laws(W, full_scalars=inst.q <= (40 if tier == "quick" else 140))
    return acc


def _shipped_task(task):
    name, seed = task
    acc = Acc()
    inst, why = T.try_get(name)
    if inst is None:
        acc.degrade("%s unavailable: %s" % (name, why))
        return acc
    R, g, q = inst.ref, inst.group, inst.q
    fam = name

    def viol(law, what, call, exp, obs):
        acc.violation("C13/%s/%s" % (fam, law), {"what": what, "inst": inst.desc, "replay": {"inst": inst.desc, "call": call},
                                                 "expected": exp, "observed": obs})

    ks = C.edge_scalars(q, seed, 1)[:8]
    # frozen multiples whose encoding is structurally rare: every result must be encodable AND decodable
    for cls, k in sorted(C.rare_multiples(name).items()):
        exp = R.enc(R.mul(R.base(), k))
        got = T.observe(lambda: g.bytes_to_element(g.Base.scalarmult(k).to_bytes()).to_bytes())
        acc.n(transitions=1)
        if got != ("ok", exp):
            viol("roundtrip", "an element obtained by scalarmult (%s encoding) does not decode from its own encoding" % cls,
                 {"op": "rt_mul", "args": [k]}, exp, got)
        acc.seen((fam, "rare", cls))
    elems = {}
    for k in ks:
        got = T.observe(lambda: g.Base.scalarmult(k))
        exp = R.enc(R.mul(R.base(), k))
        acc.n(transitions=1)
        if got[0] != "ok" or T.observe(got[1].to_bytes) != ("ok", exp):
            viol("scalarmult", "k*Base differs from the independent arithmetic", {"op": "base_mul", "args": [k]}, exp,
                 got if got[0] != "ok" else T.observe(got[1].to_bytes))
            continue
        elems[k] = got[1]
    elems["Z"] = g.Zero
    dl = {k: (0 if k == "Z" else k) for k in elems}
    names = list(elems)
    for ka, kb in itertools.product(names, repeat=2):
        a, b = elems[ka], elems[kb]
        exp = R.enc(R.mul(R.base(), dl[ka] + dl[kb]))
        got = T.observe(lambda: a.add(b))
        acc.n(transitions=3)
        if got[0] != "ok":
            viol("add-raises", "add raises", {"op": "add_mul", "args": [dl[ka], dl[kb], ka == "Z", kb == "Z"]}, exp, got)
            continue
        s = got[1]
        enc = T.observe(s.to_bytes)
        if enc != ("ok", exp):
            viol("add", "kB + jB differs from (k+j)B", {"op": "add_mul", "args": [dl[ka], dl[kb], ka == "Z", kb == "Z"]}, exp, enc)
        want = (dl[ka] - dl[kb]) % q == 0
        eq, ne = T.observe(lambda: a == b), T.observe(lambda: a != b)
        if eq != ("ok", want) or ne != ("ok", not want):
            viol("equality", "== / != are not value equality", {"op": "eq_mul", "args": [dl[ka], dl[kb], ka == "Z", kb == "Z"]},
                 [want, not want], [eq, ne])
        # the sum is a full element again: negative and large scalars, re-adding
        for n in (-1, 0, 1, q - 1, q, q + 1, -q, 2 * q + 3, (q + 1) // 2):
            exp2 = R.enc(R.mul(R.base(), (dl[ka] + dl[kb]) * n))
            got2 = T.observe(lambda: s.scalarmult(n).to_bytes())
            acc.n(transitions=1)
            if got2 != ("ok", exp2):
                viol("scalarmult-of-sum", "n*(kB + jB) wrong or raises", {"op": "sum_mul", "args": [dl[ka], dl[kb], ka == "Z", kb == "Z", n]},
                     exp2, got2)
        acc.seen((fam, "pair", type(a).__name__, type(b).__name__, want))
        if hasattr(a, "subtract"):
            exp3 = R.enc(R.mul(R.base(), dl[ka] - dl[kb]))
            got3 = T.observe(lambda: a.subtract(b).to_bytes())
            acc.n(transitions=1)
            if got3 != ("ok", exp3):
                viol("subtract", "kB - jB wrong or raises", {"op": "sub_mul", "args": [dl[ka], dl[kb], ka == "Z", kb == "Z"]}, exp3, got3)
    for k in names:
        a = elems[k]
        if hasattr(a, "negate"):
            exp = R.enc(R.mul(R.base(), -dl[k]))
            got = T.observe(lambda: a.negate().to_bytes())
            acc.n(transitions=1)
            if got != ("ok", exp):
                viol("negate", "negate() is not the additive inverse", {"op": "neg_mul", "args": [dl[k], k == "Z"]}, exp, got)
            inv = T.observe(lambda: a.add(a.negate()).to_bytes())
            if inv != ("ok", R.enc(R.identity)):
                viol("negate", "P + (-P) is not the identity", {"op": "neg_mul", "args": [dl[k], k == "Z"]}, R.enc(R.identity), inv)
        for n in (-1, -2, q, q + 1, 2 * q, 1 << 300):
            exp = R.enc(R.mul(R.base(), dl[k] * n))
            got = T.observe(lambda: a.scalarmult(n).to_bytes())
            acc.n(transitions=1)
            if got != ("ok", exp):
                viol("scalarmult", "n*(kB) wrong for negative / large n", {"op": "mul_mul", "args": [dl[k], k == "Z", n]}, exp, got)
    acc.n(states=len(names), traces=1)
    acc.inst(name, elements=len(names))
    acc.sample({"inst": name, "multiples_of_Base": [str(k) for k in names]})
    return acc


# ---------------------------------------------------------------------------
# elements that outlive the name bound to their group: a helper builds IntegerGroup(p, q, g), returns only elements, the group
# object is unreferenced by the caller and the garbage collector runs - the elements must remain full elements

def _orphans(pqg):
    L = T.lib()
    p, q, g = pqg
    grp = L.groups.IntegerGroup(p=p, q=q, g=g)
    arb = None
    for seed in (b"M", b"N", b"a", b"b", b"c", b"d", b"e"):          # some seeds are construction-degenerate on toy groups
        try:
            arb = grp.arbitrary_element(seed)
            break
        except AssertionError:
            continue
    return [grp.Base.scalarmult(k) for k in range(q + 1)], grp.Base, arb


def orphan_run(pqg):
    import gc
    p, q, g = pqg
    els, base, arb = _orphans(pqg)
    gc.collect()
    gc.collect()
    out = {}
    out["encodings"] = T.observe(lambda: [int.from_bytes(e.to_bytes(), "big") for e in els])
    out["add"] = T.observe(lambda: [int.from_bytes(els[i].add(els[j]).to_bytes(), "big") for i in range(len(els)) for j in (1, 2, q - 1)])
    out["scalarmult"] = T.observe(lambda: [int.from_bytes(els[i].scalarmult(n).to_bytes(), "big") for i in (1, 2) for n in (0, 1, 2, q - 1, q, -1)])
    out["arbitrary"] = T.observe(lambda: int.from_bytes(arb.scalarmult(1).to_bytes(), "big")) if arb is not None else ("ok", None)
    out["equal-self"] = T.observe(lambda: all(els[i] == base.scalarmult(i) for i in range(1, q)))
    return out


def orphan_expected(pqg):
    p, q, g = pqg
    from ..ref import intgroup
    R = intgroup.RefIntGroup(p, q, g) if hasattr(intgroup, "RefIntGroup") else None
    P = lambda k: pow(g, k % q, p)
    els = [P(k) for k in range(q + 1)]
    return {"encodings": ("ok", els), "add": ("ok", [els[i] * els[j] % p for i in range(len(els)) for j in (1, 2, q - 1)]),
            "scalarmult": ("ok", [pow(els[i], n % q, p) for i in (1, 2) for n in (0, 1, 2, q - 1, q, -1)]), "equal-self": ("ok", True)}


def _orphan_task(acc):
    import gc
    for pqg in ((23, 11, 2), (47, 23, 2), (59, 29, 3), (263, 131, 2)):
        got = orphan_run(pqg)
        exp = orphan_expected(pqg)
        acc.n(states=pqg[1] + 1, transitions=5, traces=1)
        for k, v in exp.items():
            acc.seen(("orphans", pqg[0], k, got[k][0]))
            if got[k] != v:
                acc.violation("C13/int/elements-outlive-group-%s" % k,
                              {"what": "elements of IntegerGroup(p=%d, q=%d, g=%d) whose group object is no longer referenced by the caller are not full elements any more (%s)" % (pqg + (k,)),
                               "replay": {"fn": "orphans", "pqg": list(pqg), "what": k}, "expected": v, "observed": got[k]})
        if got["arbitrary"][0] != "ok":
            acc.violation("C13/int/elements-outlive-group-arbitrary", {"what": "arbitrary_element() of a group no longer referenced cannot be used", "replay": {"fn": "orphans", "pqg": list(pqg), "what": "arbitrary"},
                          "expected": "element", "observed": got["arbitrary"]})
    # two groups with the same residues: elements of different groups must not become equal once the groups are gone
    a = _orphans((23, 11, 2))[1]
    b = _orphans((47, 23, 2))[1]
    gc.collect()
    eq = T.observe(lambda: a == b)
    if eq == ("ok", True):
        acc.violation("C13/int/elements-outlive-group-equality", {"what": "the generators of Z_23^* and Z_47^* (same residue) compare equal after their groups were collected",
                      "replay": {"fn": "orphans", "pqg": [23, 11, 2], "what": "cross-eq"}, "expected": False, "observed": eq})


def run(tier, seed):
    acc = Acc()
    names = (C.SMALL_INT_QUICK + C.SMALL_ED_QUICK) if tier == "quick" else (C.SMALL_INT_ALL + C.SMALL_ED_ALL)
    names = sorted(names, key=lambda n: -T.hint(n).q if T.try_get(n)[0] else 0)
    tasks = [("small", (n, tier)) for n in names] + [("shipped", (n, seed)) for n in T.SHIPPED]
    core.pmerge(_dispatch, tasks, acc)
    _orphan_task(acc)
    return acc


def _dispatch(t):
    return _small_task(t[1]) if t[0] == "small" else _shipped_task(t[1])


# ---------------------------------------------------------------------------

def _find(inst, desc):
    """re-obtain an element with the given representation (type name, encoding) through the API"""
    if isinstance(desc, int):
        return desc
    g = inst.group
    tname, enc = desc["type"], desc["enc"]
    W = World(inst, Acc())
    closure(W, ())
    for k in W.order:
        if k == (tname, enc):
            return W.reps[k][0]
    raise T.HarnessError("representation not reachable any more: %s %s" % (tname, enc.hex()))


def replay(rec):
    r = T.unjson(rec["replay"])
    if r.get("fn") == "orphans":
        if r["what"] == "cross-eq":
            import gc
            a, b = _orphans((23, 11, 2))[1], _orphans((47, 23, 2))[1]
            gc.collect()
            return T.observe(lambda: a == b)
        return orphan_run(tuple(r["pqg"]))[r["what"]]
    inst = T.build_inst(r["inst"])
    g, q = inst.group, inst.q
    c = r["call"]
    op, args = c["op"], c.get("args", [])

    def el(k, z=False):
        return g.Zero if z else g.Base.scalarmult(k)

    if op == "base_mul":
        return T.observe(lambda: g.Base.scalarmult(args[0]).to_bytes())
    if op == "rt_mul":
        return T.observe(lambda: g.bytes_to_element(g.Base.scalarmult(args[0]).to_bytes()).to_bytes())
    if op in ("add_mul", "eq_mul", "sub_mul", "sum_mul"):
        a, b = el(args[0], args[2]), el(args[1], args[3])
        if op == "add_mul":
            return T.observe(lambda: a.add(b).to_bytes())
        if op == "sub_mul":
            return T.observe(lambda: a.subtract(b).to_bytes())
        if op == "sum_mul":
            return T.observe(lambda: a.add(b).scalarmult(args[4]).to_bytes())
        return [T.observe(lambda: a == b), T.observe(lambda: a != b)]
    if op == "neg_mul":
        return T.observe(lambda: el(args[0], args[1]).negate().to_bytes())
    if op == "mul_mul":
        return T.observe(lambda: el(args[0], args[1]).scalarmult(args[2]).to_bytes())
    if "(" in op:
        return "root derivation %s" % op
    xs = [_find(inst, a) for a in args] if op != "assoc" else [_find(inst, a) for a in args[0]["args"]]
    if op == "scalarmult":
        got = T.observe(xs[0].scalarmult, xs[1])
        return got if got[0] != "ok" else inst_dlog(inst, got[1])
    if op == "negate":
        got = T.observe(xs[0].negate)
        return got if got[0] != "ok" else inst_dlog(inst, got[1])
    if op in ("add", "subtract"):
        got = T.observe(getattr(xs[0], op), xs[1])
        return got if got[0] != "ok" else inst_dlog(inst, got[1])
    if op == "eq":
        return [T.observe(lambda: xs[0] == xs[1]), T.observe(lambda: xs[0] != xs[1])]
    if op == "assoc":
        a, b, c = xs
        return T.observe(lambda: a.add(b.add(c)).to_bytes())
    if op == "dist":
        a, n, m = xs
        return T.observe(lambda: a.scalarmult(n).add(a.scalarmult(m)).to_bytes())
    if op == "mulmul":
        a, n, m = xs
        return T.observe(lambda: a.scalarmult(m).scalarmult(n).to_bytes())
    if op == "distel":
        a, b, n = xs
        return T.observe(lambda: a.scalarmult(n).add(b.scalarmult(n)).to_bytes())
    if op == "roundtrip":
        return T.observe(lambda: inst.group.bytes_to_element(args[0]["enc"]).to_bytes())
    return "unknown op"


def inst_dlog(inst, e):
    W = World(inst, Acc())
    b = T.observe(e.to_bytes)
    return b if b[0] != "ok" else W.dlog_of_bytes(b[1])
