"""C03 - messages and keys conform to the published SPAKE2 definition (interop).

Small groups: every (password of a menu incl. all strings of length <= 1, scalar x) for
start(), every (password, x, inbound subgroup element) for finish(), classes A/B/S, fresh
and restored, compared with the independent reference implementation.  Shipped sets: edge
class product + frozen golden vectors + default-path slice."""
import json, os
from .. import target as T, core
from ..core import Acc
from ..ref import spake2 as RS, golden, statefmt
from . import common as C

LEVEL = "model_checking"
RULE = ("small groups: all (pw in MENU, x in [0,q)) through start(); all (pw, x, inbound in every subgroup element incl. identity) through "
        "finish() on a fresh and on a restored instance; MENU = all byte strings of length <= 1 plus structured passwords (whitespace, case, "
        "NUL, 63/64/65/200 bytes, equal 64-byte prefixes) on the smallest groups, witnesses for every password scalar elsewhere. shipped "
        "sets: edge scalars x forced password scalars {0,1,q-1} + real passwords x classes x inbound {peer messages, G, M, N, S, 2G, -G}; "
        "golden vectors. states = distinct (instance, class, pw, ids, x) sessions; transitions = start/finish/serialize/restore calls "
        "compared with the reference. distinct_nontrivial = distinct (instance, class, password-scalar, outcome kind, restored?) classes")
ASSUMPTIONS = ["mc/ref/spake2.py (own HKDF, own group arithmetic, affine Edwards) is the published definition; it reproduces the "
               "repository's published vectors (checked when golden.json was generated)",
               "scalars are forced through the entropy function; the mapping entropy -> scalar is C11's subject and is re-read from serialize()"]
EXHAUSTIVE = True

STRUCT_PW = [b" a", b"a ", b"a\n", b"\ta", b"A", b"a", b"a\x00", b"\x00a", b"\x00", b"\x00\x00", b"ab", b"ba",
             b"p" * 63, b"p" * 64, b"p" * 65, b"p" * 200, b"p" * 64 + b"1", b"p" * 64 + b"2", b"\xff\xfe", b"\xc3\xa9",
             b"q" * 127, b"q" * 128, b"q" * 129, b"q" * 255, b"q" * 256, b"q" * 257, b"q" * 300, b"q" * 1024, b"q" * 1025, b"q" * 5000]


def bounds(tier):
    return {"small_full_menu": ["T11", "T23", "T29", "E37"] if tier == "quick" else ["T11", "T23", "T29", "T31", "T43", "E37", "E53"],
            "small_witness_menu": ["T31", "E109"] if tier == "quick" else ["T59", "T509", "T263", "T1543", "E109", "E157", "E229", "E29"],
            "password_lengths_complete": "<= 1"}


def fam(inst):
    return inst.kind if inst.small else inst.name.split("+")[0]


def menu_full():
    m = [b""] + [bytes([i]) for i in range(256)]
    for p in STRUCT_PW:
        if p not in m:
            m.append(p)
    return m


def menu_witness(inst):
    m = [inst.pw_witnesses()[w] for w in sorted(inst.pw_witnesses())]
    for p in STRUCT_PW:
        if p not in m:
            m.append(p)
    return m


def check_session(inst, side, pw, ids, x, inbounds, acc, do_fresh=True, do_restored=True):
    """one session: start() vs reference, then finish() for every inbound on fresh/restored copies"""
    R, rp = inst.ref, inst.rp
    w = R.pw_scalar(pw)
    F = fam(inst)
    s = inst.new(side, pw, ids, x)
    got = T.observe(T.do_start, s)
    acc.n(states=1, transitions=1)
    desc = {"inst": inst.desc, "side": side, "pw": pw, "ids": list(ids), "x": x}
    # the oracle is built on the scalar the instance reports (the entropy -> scalar mapping is C11's subject)
    xo = T.read_scalar(inst, s) if got[0] == "ok" else None
    if xo is not None and xo != x:
        acc.note("%s: the scalar drawn differs from the one the harness asked for (sampler behaviour is judged by C11)" % inst.name)
        x = xo
    exp_msg = RS.message(rp, side, w, x)
    if got != ("ok", exp_msg):
        acc.violation("C03/%s/%s/start-message" % (F, side),
                      {"what": "start() message differs from side byte + encode(x*G + w*blinding)", "replay": dict(desc, fn="start"),
                       "expected": exp_msg, "observed": got})
        return
    blob = T.observe(s.serialize)
    acc.n(transitions=1)
    if blob[0] != "ok":
        acc.violation("C03/%s/%s/serialize-raises" % (F, side), {"what": "serialize() raises on a started instance",
                      "replay": dict(desc, fn="serialize"), "expected": "state", "observed": blob})
        do_restored = False
    first = True
    got_first = None
    for inbound in inbounds:
        exp = RS.finish(rp, side, pw, w, ids, x, inbound)
        for mode in ("fresh", "restored"):
            if mode == "fresh":
                if not do_fresh:
                    continue
                if first:
                    t = s
                    first = False
                    got_first = True
                else:
                    t = inst.new(side, pw, ids, desc["x"])
                    T.do_start(t)
            else:
                if not do_restored:
                    continue
                r = T.observe(inst.restore, side, blob[1])
                acc.n(transitions=1)
                if r[0] != "ok" and T.style_relaxed():
                    do_restored = False
                    continue
                if r[0] != "ok":
                    acc.violation("C03/%s/%s/restore-raises" % (F, side), {"what": "from_serialized() raises on the instance's own state",
                                  "replay": dict(desc, fn="restore"), "expected": "instance", "observed": r})
                    do_restored = False
                    continue
                t = r[1]
            got = T.observe(T.do_finish, t, inbound)
            acc.n(transitions=1)
            acc.seen((F, side, w if inst.small else (w in (0, 1, R.q - 1)), exp[0] if exp[0] == "key" else exp[1], mode))
            if exp[0] == "key":
                if got != ("ok", exp[1]) and not (got[0] == "exc" and T.style_relaxed()):
                    acc.violation("C03/%s/%s/%s-finish-key" % (F, side, mode),
                                  {"what": "finish() key differs from the published transcript hash",
                                   "replay": dict(desc, fn="finish", inbound=inbound, mode=mode), "expected": exp[1], "observed": got})
            else:
                if got[0] == "ok":
                    acc.violation("C03/%s/%s/%s-finish-accepts-%s" % (F, side, mode, exp[1]),
                                  {"what": "finish() returns a key where the definition refuses (%s)" % exp[1],
                                   "replay": dict(desc, fn="finish", inbound=inbound, mode=mode), "expected": "raises", "observed": got})
    # a state taken AFTER finish(): serialize() may refuse by then, but a blob it does return is a persisted session like any
    # other - restored, it must again compute what the definition says for the original password, identities and scalar
    if got_first is not None and inbounds and (x + len(pw)) % 4 == 0:
        late = T.observe(T.do_serialize, s)
        acc.n(transitions=1)
        if late[0] == "ok":
            r = T.observe(inst.restore, side, late[1])
            if r[0] == "ok":
                inbound = inbounds[0]
                exp = RS.finish(rp, side, pw, w, ids, x, inbound)
                got = T.observe(T.do_finish, r[1], inbound)
                acc.n(transitions=2)
                acc.seen((F, side, "state-after-finish", exp[0], got[0]))
                if (exp[0] == "key" and got[0] == "ok" and got[1] != exp[1]) or (exp[0] != "key" and got[0] == "ok"):
                    acc.violation("C03/%s/%s/state-after-finish" % (F, side),
                                  {"what": "a state returned by serialize() after finish(), restored, derives a key other than the published one for the session's password, identities and scalar",
                                   "replay": dict(desc, fn="late-state", inbound=inbound), "expected": exp[1] if exp[0] == "key" else "raises", "observed": got})
    acc.n(traces=1)


def _small_task(task):
    name, side, pws, restored_all = task
    acc = Acc()
    inst, why = T.try_get(name)
    if inst is None:
        acc.degrade("%s unavailable: %s" % (name, why))
        return acc
    R = inst.ref
    label = C.PEER[side].encode()
    inbounds = [label + R.enc(e) for e in R.elements()]
    for i, pw in enumerate(pws):
        for x in range(inst.q):
            ids = C.ids_for(side, i + x)
            check_session(inst, side, pw, ids, x, inbounds, acc, do_restored=restored_all or (i % 4 == 0))
            acc.inst(name, sessions=1)
    if pws:
        acc.sample({"inst": name, "side": side, "pw": pws[-1], "x": inst.q - 1,
                    "reference_message": RS.message(inst.rp, side, R.pw_scalar(pws[-1]), inst.q - 1)})
    return acc


def _sequence_task(task):
    """the same sessions on several parameter sets one after the other in ONE process (same group object with other seeds,
    both role families on one parameter object, back to the first): conformance must not depend on what ran before"""
    names, = task
    acc = Acc()
    insts = []
    for n in names:
        try:
            if n.endswith("'"):
                base = T.get(n[:-1])
                s = base.rp.seeds
                insts.append(T.reseeded(base, M=T.alt_seed(base, s[0], b"+"), N=T.alt_seed(base, s[1], b"+"), S=T.alt_seed(base, s[2], b"+"), name=n))
            elif n.endswith("^"):
                # an empty seed in each position, where the published construction is well-defined for it
                base = T.get(n[:-1])
                try:
                    base.ref.arbitrary(b"")
                except Exception:
                    acc.note("%s: the empty seed is construction-degenerate on this toy group; variant skipped" % n)
                    continue
                insts.append(T.reseeded(base, M=b"", name=n + "M"))
                insts.append(T.reseeded(base, N=b"", S=b"", name=n + "NS"))
            else:
                insts.append(T.get(n))
        except Exception as e:
            acc.degrade("%s unavailable: %s: %s" % (n, type(e).__name__, e))
    small = all(i.small for i in insts)
    for order in (("ABS", "SBA") if small else ("SAB",)):
        for inst in insts + insts[::-1]:
            R = inst.ref
            for pw in ((b"pw", b"M", b"symmetric") if small else (b"pw",)):
                for side in order:
                    label = C.PEER[side].encode()
                    xs = range(min(inst.q, 4)) if inst.small else (2,)
                    for x in xs:
                        w = R.pw_scalar(pw)
                        inb = [RS.message(inst.rp, C.PEER[side], w, (x + 1) % inst.q), label + R.enc(R.base())]
                        check_session(inst, side, pw, C.ids_for(side, 1), x, inb, acc)
    acc.sample({"sequence_of_parameter_sets_in_one_process": names})
    return acc


def _heavy(t):
    return {"rare": _rare_task, "pat": _pattern_task, "ship": _shipped_task}[t[0]](t[1])


def _any_task(t):
    if t[0] == "dbg":
        # the same task with the logging module switched to DEBUG for the whole process (a host application's setting)
        with T.debug_logging():
            a = _any_task(t[1])
        return a.tag_env("debug-logging")
    if t[0] == "style":
        # the same task with the application calling the library in another way (subclass, bytes-like carriers, ...)
        with T.call_style(t[1]):
            a = _any_task(t[2])
        return a.tag_env("style:" + t[1])
    return _sequence_task(t[1]) if t[0] == "seq" else _small_task(t[1])


def _ids_task(task):
    """one password, every identity pair of the menu, every x"""
    name, side = task
    acc = Acc()
    inst, why = T.try_get(name)
    if inst is None:
        return acc
    R = inst.ref
    label = C.PEER[side].encode()
    inbounds = [label + R.enc(e) for e in R.elements()[1:4]]
    menu = C.IDS_S if side == "S" else C.IDS_AB
    for ids in menu:
        for x in range(inst.q):
            check_session(inst, side, b"pw", ids, x, inbounds, acc)
    return acc


# ---------------------------------------------------------------------------
# shipped sets

def shipped_variant(name, seed):
    """wrapper instance with forced password scalars on the shipped group"""
    base = T.get(name)
    q = base.q
    return T.wrapped(base, pw_map={b"\x00w0": 0, b"\x00w1": 1, b"\x00wq": q - 1}, name=name + "+w")


def _shipped_task(task):
    name, side, pw, xs, tier, seed = task
    acc = Acc()
    try:
        inst = shipped_variant(name, seed)
    except Exception as e:
        acc.degrade("%s wrapper unavailable: %s: %s" % (name, type(e).__name__, e))
        return acc
    R, rp, q = inst.ref, inst.rp, inst.q
    G = R.base()
    peer = C.PEER[side]
    label = peer.encode()
    w = R.pw_scalar(pw)
    peer_scalars = C.edge_scalars(q, seed, 1)
    peer_scalars = peer_scalars[:4] if tier == "quick" else peer_scalars[:8]
    inbounds = [RS.message(rp, peer, w, y) for y in peer_scalars]
    special = [G, rp.M, rp.N, rp.S, R.mul(G, 2), R.neg(G)]
    if tier == "quick":
        special = special[:4]
    inbounds += [label + R.enc(e) for e in special]
    for j, x in enumerate(xs):
        ids = C.ids_for(side, j + len(pw))
        check_session(inst, side, pw, ids, x, inbounds, acc, do_fresh=(j % 2 == 0 or tier != "quick"))
        acc.inst(name, sessions=1)
    # entropy streams that make the sampler re-draw many times before the scalar is accepted (integer groups): the message is
    # still side byte + encode(x*G + w*M) for the scalar finally drawn
    if R.kind == "int" and xs and pw == b"password":
        k = R.ssize
        top = (1 << q.bit_length()) - 1
        for chain in (1, 2, 5, 16, 17, 40):
            x = xs[chain % len(xs)]
            answers = [(top - (i % 5)).to_bytes(k, "big") if top - (i % 5) >= q else q.to_bytes(k, "big") for i in range(chain)] + [x.to_bytes(k, "big")]
            s = inst.new(side, pw, C.ids_for(side, chain), entropy=T.Script(answers, cap=500))
            got = T.observe(s.start)
            acc.n(states=1, transitions=1)
            if got[0] != "ok":
                acc.violation("C03/%s/%s/start-raises-after-redraws" % (fam(inst), side),
                              {"what": "start() raises when the entropy function makes the sampler re-draw %d times" % chain,
                               "replay": {"fn": "start-entropy", "inst": inst.desc, "side": side, "pw": pw, "ids": list(C.ids_for(side, chain)), "answers": answers},
                               "expected": "message", "observed": got})
                continue
            xo = T.read_scalar(inst, s)
            xo = x if xo is None else xo
            exp = RS.message(rp, side, w, xo)
            if got != ("ok", exp):
                acc.violation("C03/%s/%s/start-message" % (fam(inst), side),
                              {"what": "start() message differs from side byte + encode(x*G + w*blinding) after re-draws",
                               "replay": {"fn": "start-entropy", "inst": inst.desc, "side": side, "pw": pw, "ids": list(C.ids_for(side, chain)), "answers": answers},
                               "expected": exp, "observed": got})
    if xs:
        acc.sample({"inst": name, "side": side, "pw": pw, "x": str(xs[-1]), "message_bytes": 1 + R.esize})
    return acc


def _pattern_task(task):
    """shipped groups: sessions whose message / shared element / scalar encodings carry a distinguished byte at every position"""
    name, side, level, part, nparts = task
    acc = Acc()
    inst, why = T.try_get(name)
    if inst is None:
        acc.degrade("%s unavailable: %s" % (name, why))
        return acc
    pw = b"password"
    sess = C.PATTERNS.get((name, side, pw, level)) or C.pattern_sessions(inst, side, pw, level)
    mine = sess[part::nparts]
    for j, (x, y, inbound, tag) in enumerate(mine):
        check_session(inst, side, pw, C.ids_for(side, j), x, [inbound], acc, do_restored=(j % 3 == 0))
    acc.inst(name, pattern_sessions=len(mine))
    if mine and part == 0:
        acc.sample({"inst": name, "side": side, "byte_pattern_session": mine[0][3], "x": str(mine[0][0])})
    return acc


def _rare_task(task):
    """shipped groups, password scalar forced to 0 (wrapper group): the message is x*G itself, so the frozen 'rare' multiples
    put blinded elements with two leading/trailing zero bytes, modulus-prefix bytes etc. on the wire in both directions"""
    name, side = task
    acc = Acc()
    try:
        inst = shipped_variant(name, 0)
    except Exception as e:
        acc.degrade("%s wrapper unavailable: %s: %s" % (name, type(e).__name__, e))
        return acc
    rare = sorted(C.rare_multiples(name).items())
    if not rare:
        acc.degrade("no rare multiples for %s" % name)
        return acc
    pw = b"\x00w0"
    peer = C.PEER[side]
    ks = [k for _, k in rare]
    for j, (cls, k) in enumerate(rare):
        inbounds = [RS.message(inst.rp, peer, 0, ks[(j + 1) % len(ks)]), RS.message(inst.rp, peer, 0, ks[(j + 5) % len(ks)])]
        check_session(inst, side, pw, C.ids_for(side, j), k % inst.q, inbounds, acc, do_restored=(j % 2 == 0))
        acc.seen((name, side, "rare", cls))
    acc.inst(name, rare_sessions=len(rare))
    return acc


def _golden(acc):
    g = golden.load()
    L = T.lib()
    for v in g["vectors"]:
        inst, why = T.try_get(v["set"])
        if inst is None:
            acc.degrade("%s unavailable: %s" % (v["set"], why))
            continue
        side, pw, ids, x = v["side"], bytes.fromhex(v["pw"]), tuple(bytes.fromhex(i) for i in v["ids"]), int(v["x"])
        inbound, msg, key = bytes.fromhex(v["inbound"]), bytes.fromhex(v["msg"]), bytes.fromhex(v["key"])
        desc = {"inst": inst.desc, "side": side, "pw": pw, "ids": list(ids), "x": x}
        s = inst.new(side, pw, ids, x)
        got = T.observe(s.start)
        acc.n(states=1, transitions=3, traces=1)
        if got != ("ok", msg):
            acc.violation("C03/%s/%s/golden-message" % (v["set"], side), {"what": "start() differs from the frozen vector of the released format",
                          "replay": dict(desc, fn="start"), "expected": msg, "observed": got})
            continue
        want_len = {"ParamsEd25519": 33, "Params1024": 129, "Params2048": 257, "Params3072": 385}[v["set"]]
        if len(got[1]) != want_len:
            acc.violation("C03/%s/message-length" % v["set"], {"what": "message length differs from the published one",
                          "replay": dict(desc, fn="start"), "expected": want_len, "observed": len(got[1])})
        k1 = T.observe(s.finish, inbound)
        if k1 != ("ok", key):
            acc.violation("C03/%s/%s/golden-key" % (v["set"], side), {"what": "finish() differs from the frozen vector",
                          "replay": dict(desc, fn="finish", inbound=inbound, mode="fresh"), "expected": key, "observed": k1})
        # frozen state blob of the released format resumes the same session
        r = T.observe(lambda: inst.restore(side, v["state"].encode("ascii")).finish(inbound))
        if r != ("ok", key):
            acc.violation("C03/%s/%s/golden-restored-key" % (v["set"], side), {"what": "state written by the released format does not resume to the frozen key",
                          "replay": dict(desc, fn="finish", inbound=inbound, mode="restored"), "expected": key, "observed": r})
        acc.seen(("golden", v["set"], side))
    # constants that every message depends on
    for name, mns in g["MNS"].items():
        inst, why = T.try_get(name)
        if inst is None:
            continue
        P = inst.params
        for k in "MNS":
            got = T.observe(lambda: getattr(P, k).to_bytes().hex())
            acc.n(transitions=1)
            if got != ("ok", mns[k]):
                acc.violation("C03/%s/constant-%s" % (name, k), {"what": "blinding element %s differs from the released constant" % k,
                              "replay": {"fn": "const", "inst": inst.desc, "which": k}, "expected": mns[k], "observed": got})
        got = T.observe(lambda: P.group.Base.to_bytes().hex())
        exp = inst.ref.enc(inst.ref.base()).hex()
        if got != ("ok", exp):
            acc.violation("C03/%s/constant-G" % name, {"what": "generator differs from the released constant",
                          "replay": {"fn": "const", "inst": inst.desc, "which": "G"}, "expected": exp, "observed": got})


def _default_path(acc):
    """sessions built the way applications build them: no params=, no entropy_f= (os.urandom).  The scalar that was drawn is
    read back from serialize(); the oracle is the exact reference value for that scalar."""
    L = T.lib()
    inst, why = T.try_get("ParamsEd25519")
    if inst is None:
        return
    R, rp = inst.ref, inst.rp
    if L.sp.DefaultParams is not getattr(L.pall, "ParamsEd25519", None):
        acc.note("DefaultParams is not ParamsEd25519 (C18 judges this); default-path slice skipped")
        return
    for side in "ABS":
        for pw in (b"password", b""):
            ids = (b"idS",) if side == "S" else (b"alice", b"bob")
            if side == "S":
                s = L.S(pw, idSymmetric=ids[0])
            else:
                s = L.cls[side](pw, idA=ids[0], idB=ids[1])
            m = T.observe(s.start)
            x = T.read_scalar(inst, s) if m[0] == "ok" else None
            acc.n(states=1, transitions=3, traces=1)
            if x is None:
                acc.note("default path: scalar not readable from serialize(); slice skipped")
                continue
            w = R.pw_scalar(pw)
            exp = RS.message(rp, side, w, x)
            desc = {"inst": inst.desc, "side": side, "pw": pw, "ids": list(ids), "x": x, "default_path": True}
            if m != ("ok", exp):
                acc.violation("C03/default-path/%s/start-message" % side, {"what": "default-parameter session: message differs from the definition for the scalar it reports",
                              "replay": dict(desc, fn="start"), "expected": exp, "observed": m})
                continue
            inbound = RS.message(rp, C.PEER[side], w, 12345)
            e = RS.finish(rp, side, pw, w, ids, x, inbound)
            blob = s.serialize()
            k = T.observe(s.finish, inbound)
            k2 = T.observe(lambda: L.cls[side].from_serialized(blob).finish(inbound))
            if k != ("ok", e[1]) or k2 != ("ok", e[1]):
                acc.violation("C03/default-path/%s/finish-key" % side, {"what": "default-parameter session: key differs from the definition",
                              "replay": dict(desc, fn="finish", inbound=inbound, mode="fresh"), "expected": e[1], "observed": [k, k2]})
            acc.seen(("default", side, len(pw)))


def _unusable(acc, name, why):
    if T.lib_refuses_valid_group(name, why):
        acc.violation("%s/int/parameter-set-over-valid-group-fails" % "C03", {"what": "a parameter set over the valid integer group %s (well-defined seeds) cannot be built through the public API: %s" % (name, why[4:]),
                      "replay": {"fn": "build", "name": name}, "expected": "parameter set", "observed": why[4:]})


def run(tier, seed):
    acc = Acc()
    quick = tier == "quick"
    b = bounds(tier)
    tasks = []
    full = menu_full()
    for name in b["small_full_menu"]:
        inst, why = T.try_get(name)
        if inst is None:
            acc.degrade("%s unavailable: %s" % (name, why))
            _unusable(acc, name, why)
            continue
        for side in "ABS":
            for ch in core.chunks(full, 8 if inst.kind == "int" else 24):
                tasks.append((name, side, ch, inst.kind == "int"))
    for name in b["small_witness_menu"]:
        inst, why = T.try_get(name)
        if inst is None:
            acc.degrade("%s unavailable: %s" % (name, why))
            _unusable(acc, name, why)
            continue
        m = menu_witness(inst)
        if inst.q > 60:
            m = m[:6] + STRUCT_PW[:6]
        for side in "ABS":
            for ch in core.chunks(m, 6):
                tasks.append((name, side, ch, False))
    # calling conventions: the same sessions with the application calling the library differently
    style_pw = [b"", b"a", b"\x00", b"p" * 65] if quick else full[::3]
    style_tasks = [(n, sd, ch, True) for n in (("T23", "E37") if quick else ("T11", "T23", "T29", "E37", "E53")) if T.try_get(n)[0] is not None
                   for sd in "ABS" for ch in core.chunks(style_pw, 1 if quick else 4)]
    core.pmerge(_any_task, [("seq", t) for t in reversed([(["T23", "T23'", "T29", "T23^", "T29^", "T11^"],), (["E37", "E37'", "E37^"],),
                                                         (["Params1024", "Params1024'"],), (["Params1024^"],),
                                                         (["ParamsEd25519", "ParamsEd25519'"],), (["ParamsEd25519^"],)])] +
                [("small", t) for t in tasks] + [("dbg", ("small", t)) for t in tasks if t[0] in ("T23", "E37")] +
                [("dbg", ("seq", (["Params1024", "ParamsEd25519"],)))] +
                [("style", st, ("small", t)) for st in T.STYLES for t in style_tasks] +
                [("style", st, ("seq", (["Params1024", "ParamsEd25519"],))) for st in (("password-keyword", "positional", "subclass-init", "inbound-memoryview") if quick else T.STYLES)], acc)
    core.pmerge(_ids_task, [(n, s) for n in (["T23", "E37"] if quick else ["T23", "T29", "E37", "E109"]) for s in "ABS"], acc)
    tasks_seq = [(["T23", "T23'", "T29"],), (["E37", "E37'"],), (["Params1024", "Params1024'"],), (["ParamsEd25519", "ParamsEd25519'"],)]
    # shipped
    stasks = []
    for name in T.SHIPPED + T.WIDE:
        inst, why = T.try_get(name)
        if inst is None:
            acc.degrade("%s unavailable: %s" % (name, why))
            _unusable(acc, name, why)
            continue
        xs = C.edge_scalars(inst.q, seed, 1)
        xs = xs[:4] if quick else xs[:8]
        pws = [b"\x00w0", b"\x00w1", b"\x00wq", b"password"] if quick else \
              [b"\x00w0", b"\x00w1", b"\x00wq", b"password", b"", b"\x00", b"\xff\xfe\x80", b"p" * 65, b"\xc3\xa9" * 100]
        for side in "ABS":
            for pw in pws:
                for xc in core.chunks(xs, 2 if quick else 4):
                    stasks.append((name, side, pw, xc, tier, seed))
            # password length boundaries (one scalar each)
            for pw in [b"q" * n for n in ((256, 257, 1025) if quick else (31, 32, 33, 63, 64, 65, 127, 128, 129, 255, 256, 257, 300, 1024, 1025, 5000))]:
                stasks.append((name, side, pw, xs[2:3], tier, seed))
    stasks.sort(key=lambda t: -T.hint(t[0]).ref.esize)
    C.prepare_patterns(T.SHIPPED, "ABS", b"password", 0 if quick else 1)
    ptasks = []
    for name in T.SHIPPED:
        if T.try_get(name)[0] is None:
            continue
        np_ = {"ParamsEd25519": 12, "Params1024": 6, "Params2048": 16, "Params3072": 32}[name] * (1 if quick else 3)
        for side in "ABS":
            for part in range(np_):
                ptasks.append((name, side, 0 if quick else 1, part, np_))
    ptasks.sort(key=lambda t: -T.hint(t[0]).ref.esize)
    heavy = [("rare", (n, s_)) for n in reversed(T.SHIPPED) for s_ in "ABS"] + [("pat", t) for t in ptasks] + [("ship", t) for t in stasks]
    core.pmerge(_heavy, heavy, acc)
    _golden(acc)
    _default_path(acc)
    with T.debug_logging():
        a = Acc()
        _golden(a)
        _default_path(a)
    acc.merge(a.tag_env("debug-logging"))
    return acc


def replay(rec):
    r = T.unjson(rec["replay"])
    if r.get("fn") == "build":
        return T.try_get(r["name"])[1][4:]
    inst = T.build_inst(r["inst"])
    if r["fn"] == "const":
        P = inst.params
        return T.observe(lambda: (P.group.Base if r["which"] == "G" else getattr(P, r["which"])).to_bytes().hex())
    if r["fn"] == "start-entropy":
        s = inst.new(r["side"], r["pw"], tuple(r["ids"]), entropy=T.Script(list(r["answers"]), cap=500))
        return T.observe(s.start)
    side, pw, ids, x = r["side"], r["pw"], tuple(r["ids"]), r["x"]
    s = inst.new(side, pw, ids, x)
    m = T.observe(T.do_start, s)
    if r["fn"] == "start":
        return m
    if r["fn"] == "serialize":
        return T.observe(s.serialize)
    if r["fn"] == "restore":
        return T.observe(lambda: type(inst.restore(side, s.serialize())).__name__)
    if r.get("mode") == "restored":
        s = inst.restore(side, s.serialize())
    if r["fn"] == "late-state":
        T.observe(s.serialize)
        T.observe(T.do_finish, s, r["inbound"])
        return T.observe(lambda: T.do_finish(inst.restore(side, T.do_serialize(s)), r["inbound"]))
    return T.observe(T.do_finish, s, r["inbound"])
