"""C06 - side confusion and reflection are always refused.

All 256 side bytes + the empty message x {valid peer element, own element} x 3 classes x
fresh/restored receivers, for all (w, x) of small groups and edge classes of the shipped
sets; oracle = refusal table derived from the statement."""
from .. import target as T, core
from ..core import Acc
from ..ref import spake2 as RS
from . import common as C
from .c02 import Receiver

LEVEL = "fault_enumeration"
RULE = ("for every session (instance, class, pw/w, x, fresh|restored): delivered = label || payload for label in all 256 byte values and "
        "'no label', payload in {a valid peer element, the instance's own element}, plus the empty message; oracle: own side (A/B) and "
        "A/B labels at Symmetric -> OffSides; S label at A/B, unknown, missing -> any exception, never a key; accepted label + own element "
        "-> ReflectionThwarted; accepted label + valid element -> counted only. small groups: all (w, x); shipped: edge classes. "
        "evaluations = finish() calls; distinct_nontrivial = distinct (instance family, class, label class, payload kind, restored, "
        "outcome) combinations other than the accepting one")
ASSUMPTIONS = ["exception classes are matched by name (OffSides, ReflectionThwarted)", "asserts enabled",
               "receivers on the shipped groups are copy.copy clones of one started instance"]
EXHAUSTIVE = True


def bounds(tier):
    return {"labels": "256 + none + empty message", "small": ["T11", "T23", "E37"] if tier == "quick" else ["T11", "T23", "T29", "T31", "T43", "E37", "E53", "E109"],
            "shipped": T.SHIPPED}


def fam(inst):
    return inst.kind if inst.small else inst.name


def label_class(side, lab):
    if lab == b"":
        return "missing"
    if lab in (b"A", b"B", b"S"):
        return lab.decode()
    return "unknown"


def check_receiver(r, peer_payload, acc):
    inst, side = r.inst, r.side
    R = inst.ref
    F = fam(inst)
    own = r.msg[1:]
    own_decodable = R.dec_strict(own) is not None
    cases = [(bytes([v]), "valid", peer_payload) for v in range(256)] + [(bytes([v]), "own", own) for v in range(256)]
    cases += [(b"", "valid", peer_payload), (b"", "own", own), (b"", "empty", b"")]
    T.clock.advance(3600)          # an hour passes between start()/restore and the arrival of any message
    for lab, pk, payload in cases:
        delivered = lab + payload
        got = T.observe(r.fresh().finish, delivered)
        acc.n(evaluations=1, transitions=1)
        so = RS.side_outcome(side, delivered)
        lc = label_class(side, lab) if pk != "empty" else "empty-message"
        bad = None
        if pk != "empty" and lab == b"":
            # no label: the first payload byte is taken as label by the receiver; classify by what is actually delivered
            lc = "missing(" + label_class(side, delivered[0:1]) + ")"
        if so == "OffSides":
            if got != ("exc", "OffSides"):
                bad = ("wrong-side-label", "OffSides")
        elif so == "refuse":
            if got[0] == "ok":
                bad = ("unknown-or-foreign-label-accepted", "any exception")
        else:  # label accepted
            rest = delivered[1:]
            if rest == own:
                if got[0] == "ok":
                    bad = ("reflection-accepted", "ReflectionThwarted")
                elif own_decodable and got != ("exc", "ReflectionThwarted"):
                    bad = ("reflection-wrong-exception", "ReflectionThwarted")
            else:
                acc.n(accepted_label_other_element=1)
        acc.seen((F, side, lc, pk, r.restored, got[0] if got[0] == "ok" else got[1]))
        if bad:
            acc.violation("C06/%s/%s/%s%s" % (F, side, bad[0], "/restored" if r.restored else ""),
                          {"what": "finish() on a message labelled %r (%s payload): %s" % (lab, pk, bad[0]),
                           "replay": {"r": r.desc(), "delivered": delivered}, "expected": bad[1],
                           "observed": got if got[0] != "ok" else ("ok", "key")})
    acc.n(states=1, traces=1)


def _small_task(task):
    name, side, ws = task
    acc = Acc()
    inst, why = T.try_get(name)
    if inst is None:
        acc.degrade("%s unavailable: %s" % (name, why))
        return acc
    R, rp, q = inst.ref, inst.rp, inst.q
    wit = inst.pw_witnesses()
    for w in ws:
        pw = wit[w]
        for x in range(q):
            ids = C.ids_for(side, w + x)
            peer_payload = RS.payload(rp, C.PEER[side], w, (x + 1) % q)
            for restored in (False, True):
                r = Receiver(inst, side, pw, ids, x, restored=restored)
                if peer_payload == r.msg[1:]:
                    peer_payload = RS.payload(rp, C.PEER[side], w, (x + 2) % q)
                check_receiver(r, peer_payload, acc)
            acc.inst(name, sessions=2)
    acc.sample({"inst": name, "side": side, "w": ws[-1], "x": q - 1, "delivered_example": b"C" + peer_payload})
    return acc


def _shipped_task(task):
    name, side, pw, x, restored = task
    acc = Acc()
    inst, why = T.try_get(name)
    if inst is None:
        acc.degrade("%s unavailable: %s" % (name, why))
        return acc
    R, rp = inst.ref, inst.rp
    w = R.pw_scalar(pw)
    r = Receiver(inst, side, pw, C.ids_for(side, 1), x, restored=restored, clone=True)
    peer_payload = RS.payload(rp, C.PEER[side], w, (x + 1) % inst.q)
    check_receiver(r, peer_payload, acc)
    acc.inst(name, sessions=1)
    return acc


# ---------------------------------------------------------------------------
# a user-defined group whose decoder is lenient about zero padding (integers without / with extra leading zero bytes decode to the
# same element - the group interface leaves the wire format to the group): reflection is a statement about ELEMENTS, so the
# receiver's own element must be refused under every encoding its group's decoder accepts

class LenientGroup(T.WrapGroup):
    def bytes_to_element(self, b):
        size = self.element_size_bytes
        b = bytes(b).lstrip(b"\x00")
        if len(b) > size:
            raise ValueError("too long")
        return self._i.bytes_to_element(b"\x00" * (size - len(b)) + b)


def lenient_run(name, side, x, variant, restored):
    L = T.lib()
    base = T.get(name)
    G = LenientGroup(base.group)
    seeds = base.rp.seeds
    P = L.params._Params(G, M=seeds[0], N=seeds[1], S=seeds[2])
    ent = base.entropy(x)
    ids = C.ids_for(side, 1)
    s = L.S(b"pw", idSymmetric=ids[0], params=P, entropy_f=ent) if side == "S" else L.cls[side](b"pw", idA=ids[0], idB=ids[1], params=P, entropy_f=ent)
    m = s.start()
    if restored:
        s = L.cls[side].from_serialized(s.serialize(), params=P)
    own = m[1:]
    enc = {"as-sent": own, "zero-padded": b"\x00" + own, "double-padded": b"\x00\x00" + own, "stripped": own.lstrip(b"\x00") or own}[variant]
    label = (C.PEER[side] if side != "S" else "S").encode()
    return T.observe(s.finish, label + enc)


def _lenient_task(task):
    name, side = task
    acc = Acc()
    inst, why = T.try_get(name)
    if inst is None or inst.kind != "int":
        return acc
    for x in (range(1, inst.q) if inst.small else (5,)):
        for restored in (False, True):
            for variant in ("as-sent", "zero-padded", "double-padded", "stripped"):
                got = lenient_run(name, side, x, variant, restored)
                acc.n(evaluations=1, transitions=3, states=1)
                acc.seen(("lenient", name, side, variant, got[0] if got[0] == "ok" else got[1]))
                if got[0] == "ok":
                    acc.violation("C06/%s/%s/reflection-under-lenient-decoder" % (inst.kind if inst.small else inst.name, side),
                                  {"what": "with a user-defined group whose decoder accepts other zero paddings, finish() returns a key for the receiver's own element (%s encoding)" % variant,
                                   "replay": {"fn": "lenient", "name": name, "side": side, "x": x, "variant": variant, "restored": restored},
                                   "expected": "raises (ReflectionThwarted)", "observed": ("ok", "key")})
    acc.n(traces=1)
    return acc


def _default_path(acc):
    L = T.lib()
    for side in "ABS":
        s = L.S(b"password") if side == "S" else L.cls[side](b"password")
        m = T.observe(s.start)
        if m[0] != "ok":
            continue
        import copy
        for lab, want in ((side.encode(), "ReflectionThwarted" if side == "S" else "OffSides"), (b"Z", None), (b"", None)):
            got = T.observe(T.snapshot(s).finish, lab + m[1][1:])
            acc.n(evaluations=1, transitions=1)
            if got[0] == "ok" or (want and got != ("exc", want)):
                acc.violation("C06/default-path/%s" % side, {"what": "default-parameter session accepts / mis-reports a mislabelled message",
                              "replay": {"default_path": True}, "expected": want or "any exception", "observed": got if got[0] != "ok" else ("ok", "key")})
        if side != "S":
            got = T.observe(T.snapshot(s).finish, C.PEER[side].encode() + m[1][1:])
            acc.n(evaluations=1, transitions=1)
            if got != ("exc", "ReflectionThwarted"):
                acc.violation("C06/default-path/%s" % side, {"what": "default-parameter session does not refuse its own element under the peer's label",
                              "replay": {"default_path": True}, "expected": "ReflectionThwarted", "observed": got if got[0] != "ok" else ("ok", "key")})


def run(tier, seed):
    acc = Acc()
    quick = tier == "quick"
    b = bounds(tier)
    tasks = []
    for name in b["small"]:
        inst, why = T.try_get(name)
        if inst is None:
            acc.degrade("%s unavailable: %s" % (name, why))
            continue
        for side in "ABS":
            for w in range(inst.q):
                tasks.append(("small", (name, side, [w])))
    for name in T.SHIPPED:
        inst, why = T.try_get(name)
        if inst is None:
            acc.degrade("%s unavailable: %s" % (name, why))
            continue
        xs = C.edge_scalars(inst.q, seed, 1)
        xs = [xs[0], xs[4]] if quick else xs[:6]
        for side in "ABS":
            for pw in ([b"password"] if quick else [b"password", b"", b"\x00\xff"]):
                for x in xs:
                    for restored in (False, True):
                        tasks.append(("shipped", (name, side, pw, x, restored)))
    tasks.sort(key=lambda t: -(T.hint(t[1][0]).ref.esize * (50 if t[0] == "shipped" else T.hint(t[1][0]).q)))
    core.pmerge(_dispatch, tasks, acc)
    core.pmerge(_lenient_task, [(n, sd) for n in (["T509", "T23", "Params1024"] if quick else ["T509", "T23", "T263", "T1543", "Params1024", "Params2048", "Params3072"]) for sd in "ABS"], acc)
    _default_path(acc)
    # a session left half-open while many others run must still refuse its own reflected message (long history, one process)
    from .c16 import _soak_task
    d = core.pmerge(_soak_task, [("Params1024", 3000), ("T23", 3000)] if quick else [("Params1024", 3500), ("T23", 50000), ("T509", 20000)])
    for k, v in d.viol.items():
        if "half-open" in k:
            for r in v["records"]:
                acc.violation("C06/soak/reflection-accepted-after-long-history", r)
    acc.n(evaluations=d.c.get("transitions", 0))
    return acc


def _dispatch(t):
    return _small_task(t[1]) if t[0] == "small" else _shipped_task(t[1])


def replay(rec):
    r = T.unjson(rec["replay"])
    if r.get("fn") == "lenient":
        got = lenient_run(r["name"], r["side"], r["x"], r["variant"], r["restored"])
        return ("ok", "key") if got[0] == "ok" else got
    if r.get("default_path"):
        return "default-path run (os.urandom); see observed"
    d = r["r"]
    inst = T.build_inst(d["inst"])
    rv = Receiver(inst, d["side"], d["pw"], tuple(d["ids"]), d["x"], d.get("restored", False), d.get("clone", False))
    got = T.observe(rv.fresh().finish, r["delivered"])
    return got if got[0] != "ok" else ("ok", "key")
