"""C04 - the outbound message hides the password (uniform, password-independent).

For every small group the FULL table message(w, x), w in [0,q), x in [0,q), through the
real start(): every row is a bijection onto the prime-order subgroup, rows do not depend on
the identities, and message - w*M = x*G cell by cell.  Shipped groups: the algebraic identity
with the independent arithmetic on the edge-class product, and M, N, S in <G>."""
from .. import target as T, core
from ..core import Acc
from ..ref import spake2 as RS
from . import common as C

LEVEL = "model_checking"
RULE = ("small groups: complete table start()(w, x) for all password scalars w (witness passwords) and all scalars x (entropy scripted, the "
        "scalar actually drawn re-read through serialize()), classes A/B/S, 3 identity settings; oracle: each row = the subgroup exactly "
        "once (reference enumeration), id-independent, decode(msg) - w*M_ref = x*G_ref. Additionally, on 1-byte-scalar groups, the row "
        "as a function of the FIRST ENTROPY BYTE (all 256 answers, second draw scripted): every subgroup element is produced by the same "
        "number of first-draw answers. shipped: identity on edge classes + order-q membership of M,N,S. states = table cells; "
        "transitions = start()/serialize() calls. distinct_nontrivial = distinct (instance, class, w) rows verified to be bijections")
ASSUMPTIONS = ["reference subgroup enumeration and arithmetic (mc/ref)", "uniformity of the scalar itself for uniform entropy is C11's subject"]
EXHAUSTIVE = True


def bounds(tier):
    return {"tables": (C.SMALL_INT_QUICK + ["T263"] + C.SMALL_ED_QUICK) if tier == "quick" else (C.SMALL_INT_ALL + C.SMALL_ED_ALL)}


def fam(inst):
    return inst.kind if inst.small else inst.name


def _table_task(task):
    name, side, ws = task
    acc = Acc()
    inst, why = T.try_get(name)
    if inst is None:
        acc.degrade("%s unavailable: %s" % (name, why))
        return acc
    R, rp, q = inst.ref, inst.rp, inst.q
    wit = inst.pw_witnesses()
    subgroup = {R.enc(e) for e in R.elements()}
    Mb = rp.blind(side)
    ids_menu = [C.ids_for(side, 0), C.ids_for(side, 1), C.ids_for(side, 5)]
    F = fam(inst)
    for w in ws:
        pw = wit[w]
        rows = []
        for ids in ids_menu:
            row = {}
            for x in range(q):
                s = inst.new(side, pw, ids, x)
                m = T.observe(s.start)
                acc.n(states=1, transitions=2)
                if m[0] != "ok":
                    acc.violation("C04/%s/start-raises" % F, {"what": "start() raises", "replay": {"inst": inst.desc, "side": side, "pw": pw, "ids": list(ids), "x": x},
                                  "expected": "message", "observed": m})
                    continue
                xr = T.read_scalar(inst, s)
                if xr is None:
                    acc.degrade("scalar not readable through serialize()")
                    xr = x
                payload = m[1][1:]
                row[xr] = payload
                # algebraic identity with the reference arithmetic: decode(msg) - w*M = x*G
                P = R.dec_strict(payload) if not (R.refuses_identity and payload == R.enc(R.identity)) else R.identity
                if P is None or R.add(P, R.mul(Mb, -w)) != R.mul(R.base(), xr):
                    acc.violation("C04/%s/%s/blinding-identity" % (F, side),
                                  {"what": "message - w*M != x*G (password enters other than through the blinding term, or x*G missing)",
                                   "replay": {"inst": inst.desc, "side": side, "pw": pw, "ids": list(ids), "x": x},
                                   "expected": R.enc(R.add(R.mul(R.base(), xr), R.mul(Mb, w))), "observed": payload})
            rows.append(row)
        r0 = rows[0]
        if sorted(r0) != list(range(q)):
            acc.violation("C04/%s/%s/scalar-range" % (F, side), {"what": "the scalars drawn do not range over [0,q) when the entropy does",
                          "replay": {"inst": inst.desc, "side": side, "pw": pw, "ids": list(ids_menu[0]), "x": 0, "row": True},
                          "expected": q, "observed": len(r0)})
        vals = list(r0.values())
        if len(set(vals)) != len(vals) or set(vals) != subgroup:
            acc.violation("C04/%s/%s/row-not-bijection" % (F, side),
                          {"what": "for a fixed password the messages do not cover the subgroup exactly once",
                           "replay": {"inst": inst.desc, "side": side, "pw": pw, "ids": list(ids_menu[0]), "x": 0, "row": True},
                           "expected": len(subgroup), "observed": len(set(vals))})
        else:
            acc.seen((name, side, w))
        for i, r in enumerate(rows[1:]):
            if r != r0:
                acc.violation("C04/%s/%s/ids-influence-message" % (F, side), {"what": "the identity strings influence the message",
                              "replay": {"inst": inst.desc, "side": side, "pw": pw, "ids": list(ids_menu[i + 1]), "x": 0, "row": True},
                              "expected": "same row", "observed": "rows differ"})
        acc.n(traces=1)
        acc.inst(name, rows=1)
    acc.sample({"inst": name, "side": side, "w": ws[-1], "row_size": q, "cell": {"x": q - 1, "payload": r0.get(q - 1)}})
    return acc


def _first_byte_task(task):
    """row as a function of the first entropy answer (E2 choice point): 1-byte-scalar integer groups"""
    name, side = task
    acc = Acc()
    inst, why = T.try_get(name)
    if inst is None or inst.kind != "int" or inst.ref.ssize != 1:
        return acc
    R, q = inst.ref, inst.q
    pw = b"pw"
    counts = {}
    redraw = 0
    for b0 in range(256):
        ent = T.Script([bytes([b0]), bytes([1]), bytes([1])])
        s = inst.new(side, pw, None, entropy=ent)
        m = T.observe(s.start)
        acc.n(states=1, transitions=1)
        if m[0] != "ok":
            acc.violation("C04/%s/start-raises" % fam(inst), {"what": "start() raises for an entropy answer", "replay": {"inst": inst.desc, "side": side, "pw": pw, "ids": [], "entropy": [b0, 1, 1]},
                          "expected": "message", "observed": m})
            continue
        if len(ent.calls) > 1:
            redraw += 1
            continue
        counts[m[1][1:]] = counts.get(m[1][1:], 0) + 1
    sub = {R.enc(e) for e in R.elements()}
    if set(counts) != sub or len(set(counts.values())) != 1:
        acc.violation("C04/%s/%s/first-draw-not-uniform" % (fam(inst), side),
                      {"what": "over all 256 first entropy answers the accepted ones do not hit every subgroup element equally often",
                       "replay": {"inst": inst.desc, "side": side, "pw": pw, "ids": [], "entropy": "all-first-bytes"},
                       "expected": "%d elements, equal counts" % len(sub), "observed": sorted(counts.values())})
    else:
        acc.seen((name, side, "first-byte", next(iter(counts.values())), redraw))
    acc.n(traces=1)
    return acc


def _entropy_tree_task(task):
    """the message as a function of the ENTROPY (E2 choice tree, two draws deep): under uniform entropy answers the message
    must be uniform on the subgroup.  Exact rational weights: a leaf reached through answers a1..ak has probability
    prod 1/|menu_i|; uniformity is demanded of the distribution conditional on finishing within two draws."""
    from fractions import Fraction
    from .. import explore
    name, side = task
    acc = Acc()
    inst, why = T.try_get(name)
    if inst is None or inst.kind != "int":
        return acc
    R, q = inst.ref, inst.q
    pw = b"pw"

    def menu(k, depth):
        if k == 1:
            return None
        if k == 2:
            # the top byte is masked down to the bits of q: two representatives per masked value class suffice
            top = (1 << max(0, q.bit_length() - 8)) - 1
            return [bytes([t, lo]) for t in range(top + 1) for lo in range(256)]
        return None
    menu.all_widths = True

    def fn(f):
        s = inst.new(side, pw, None, entropy=f)
        m = T.observe(s.start)
        return m[1][1:] if m[0] == "ok" else m

    prob = {}
    sizes_seen = set()
    nleaf = 0
    # level sizes are needed for the weights: record the menu size at each depth along each path
    def msize(k, depth):
        a = menu(k, depth)
        return len(a) if a is not None else 256 ** k
    for answers, res, sizes in explore.choice_tree(fn, 2, menu):
        acc.n(states=1, transitions=1)
        nleaf += 1
        if res is explore.PENDING:
            continue
        w = Fraction(1)
        for d, k in enumerate(sizes[:len(answers)]):
            w /= msize(k, d)
        sizes_seen.add(tuple(sizes))
        if isinstance(res, tuple):
            acc.violation("C04/%s/start-raises" % fam(inst), {"what": "start() raises for an entropy answer", "replay": {"inst": inst.desc, "side": side, "pw": pw, "ids": [], "entropy": [a for a in answers]},
                          "expected": "message", "observed": res})
            continue
        prob[res] = prob.get(res, Fraction(0)) + w
    sub = {R.enc(e) for e in R.elements()}
    vals = set(prob.values())
    if set(prob) != sub or len(vals) != 1:
        lo, hi = (min(prob.values()), max(prob.values())) if prob else (0, 0)
        acc.violation("C04/%s/%s/message-not-uniform-under-uniform-entropy" % (fam(inst), side),
                      {"what": "over the complete two-draw entropy tree the message is not uniformly distributed on the subgroup (a re-draw does not use fresh, independent bytes, or values are missing)",
                       "replay": {"inst": inst.desc, "side": side, "pw": pw, "ids": [], "entropy": "two-draw-tree"},
                       "expected": "%d elements, equal probability" % len(sub), "observed": {"elements": len(prob), "min": str(lo), "max": str(hi)}})
    else:
        acc.seen((name, side, "entropy-tree", str(next(iter(vals)))))
    acc.n(traces=1)
    acc.inst(name, entropy_tree_leaves=nleaf)
    return acc


def _shipped_task(task):
    name, seed = task
    acc = Acc()
    try:
        base = T.get(name)
        q = base.q
        inst = T.wrapped(base, pw_map={b"\x00w0": 0, b"\x00w1": 1, b"\x00wq": q - 1}, name=name + "+w")
    except Exception as e:
        acc.degrade("%s unavailable: %s: %s" % (name, type(e).__name__, e))
        return acc
    R, rp = inst.ref, inst.rp
    G = R.base()
    # M, N, S in the order-q subgroup (cyclic of prime order: membership = generated by G), not identity
    for k in "MNS":
        e = getattr(rp, k)
        lib_enc = T.observe(lambda: getattr(inst.params, k).to_bytes())
        P = R.dec_strict(lib_enc[1]) if lib_enc[0] == "ok" else None
        acc.n(transitions=1, states=1)
        if P is None or R.is_identity(P) or not (R.member(P)):
            acc.violation("C04/%s/%s-not-in-subgroup" % (name, k), {"what": "blinding element is not a non-identity member of the prime-order subgroup",
                          "replay": {"inst": base.desc, "const": k}, "expected": "member", "observed": lib_enc})
    xs = C.edge_scalars(q, seed, 1)[:6]
    for side in "ABS":
        Mb = rp.blind(side)
        for pw in (b"\x00w0", b"\x00w1", b"\x00wq", b"password", b""):
            w = R.pw_scalar(pw)
            seen = set()
            for i, x in enumerate(xs):
                row = []
                for ids in (C.ids_for(side, 0), C.ids_for(side, 1)):
                    s = inst.new(side, pw, ids, x)
                    m = T.observe(s.start)
                    acc.n(states=1, transitions=1)
                    row.append(m)
                    if m[0] != "ok":
                        continue
                    payload = m[1][1:]
                    P = R.dec_strict(payload) if payload != R.enc(R.identity) else R.identity
                    if P is None or R.add(P, R.mul(Mb, -w)) != R.mul(G, x):
                        acc.violation("C04/%s/%s/blinding-identity" % (name, side), {"what": "message - w*M != x*G",
                                      "replay": {"inst": inst.desc, "side": side, "pw": pw, "ids": list(ids), "x": x},
                                      "expected": R.enc(R.add(R.mul(G, x), R.mul(Mb, w))), "observed": payload})
                    seen.add(payload)
                if row[0] != row[1]:
                    acc.violation("C04/%s/%s/ids-influence-message" % (name, side), {"what": "the identity strings influence the message",
                                  "replay": {"inst": inst.desc, "side": side, "pw": pw, "ids": list(C.ids_for(side, 1)), "x": x},
                                  "expected": row[0], "observed": row[1]})
            if len(seen) != len(xs):
                acc.violation("C04/%s/%s/row-not-injective" % (name, side), {"what": "distinct scalars give equal messages",
                              "replay": {"inst": inst.desc, "side": side, "pw": pw, "ids": [], "x": xs[0]}, "expected": len(xs), "observed": len(seen)})
            acc.seen((name, side, pw))
            acc.n(traces=1)
    # entropy answers next to the order (q with one 16-bit word raised and a later one lowered, and vice versa): the message must
    # still be side byte + encode(x*G + w*M) for an x in [0,q) - an out-of-range scalar makes two entropy blocks share a message
    if R.kind == "int":
        k = R.ssize
        nun = (8 * k) // 16
        w = R.pw_scalar(b"password")
        Mb = rp.blind("A")
        for i in range(0, nun - 1):
            for j in (i + 1, nun - 1):
                si, sj = 16 * (nun - 1 - i), 16 * (nun - 1 - j)
                for c in (q + (1 << si) - (1 << sj), q - (1 << si) + (1 << sj)):
                    if not (0 <= c < (1 << q.bit_length())) or si == sj:
                        continue
                    ent = T.Script([c.to_bytes(k, "big"), (5).to_bytes(k, "big")])
                    s = inst.new("A", b"password", None, entropy=ent)
                    m = T.observe(s.start)
                    acc.n(states=1, transitions=1)
                    if m[0] != "ok":
                        continue
                    raw = None
                    try:
                        import json as _j
                        raw = int(_j.loads(s.serialize().decode("ascii"))["xy_scalar"], 16)
                    except Exception:
                        pass
                    want = c if c < q else 5
                    P = R.dec_strict(m[1][1:])
                    okid = P is not None and R.add(P, R.mul(Mb, -w)) == R.mul(G, want)
                    if not okid or (raw is not None and raw >= q):
                        acc.violation("C04/%s/A/scalar-out-of-range-or-message-identity" % name,
                                      {"what": "an entropy answer next to the group order yields a scalar outside [0,q) or a message that is not x*G + w*M for the scalar rejection sampling defines",
                                       "replay": {"inst": inst.desc, "side": "A", "pw": b"password", "ids": [], "entropy": [c.to_bytes(k, "big"), (5).to_bytes(k, "big")]},
                                       "expected": str(want), "observed": str(raw)})
        acc.seen((name, "order-neighbours"))
    acc.sample({"inst": name, "edge_scalars": [str(x) for x in xs]})
    return acc


def run(tier, seed):
    acc = Acc()
    tasks = []
    for name in bounds(tier)["tables"]:
        inst, why = T.try_get(name)
        if inst is None:
            acc.degrade("%s unavailable: %s" % (name, why))
            continue
        for side in "ABS":
            for ws in core.chunks(range(inst.q), max(1, min(16, inst.q // 4))):
                tasks.append((name, side, ws))
    tasks.sort(key=lambda t: -T.hint(t[0]).q * len(t[2]) * (10 if T.hint(t[0]).kind == "ed" else 1))
    core.pmerge(_table_task, tasks, acc)
    core.pmerge(_first_byte_task, [(n, s) for n in ["T11", "T23", "T29", "T31", "T43", "T59", "T509", "T263"] for s in "ABS"], acc)
    core.pmerge(_entropy_tree_task, [(n, s) for n in ["T1543", "T263", "T23", "T29"] for s in ("A", "S")], acc)
    core.pmerge(_shipped_task, [(n, seed) for n in T.SHIPPED + T.WIDE], acc)
    # sessions built with the default entropy source: two sessions sharing a scalar would make their messages differ by (w1-w2)*M
    from .c16 import _default_entropy_task
    d = core.pmerge(_default_entropy_task, [(300 if tier == "quick" else 1500,)])
    for k, v in d.viol.items():
        for r in v["records"]:
            acc.violation("C04/default-entropy/repeated-scalar", dict(r, what=r.get("what", "") + " - their messages differ only by (w1-w2)*M"))
    acc.n(states=d.c.get("states", 0), transitions=d.c.get("transitions", 0))
    return acc


def replay(rec):
    r = T.unjson(rec["replay"])
    inst = T.build_inst(r["inst"])
    if "const" in r:
        return T.observe(lambda: getattr(inst.params, r["const"]).to_bytes())
    if r.get("row"):
        out = []
        for x in range(inst.q):
            s = inst.new(r["side"], r["pw"], tuple(r["ids"]) or None, x)
            out.append(T.observe(s.start))
        return len({o[1] for o in out if o[0] == "ok"})
    if "entropy" in r:
        return "see observed"
    s = inst.new(r["side"], r["pw"], tuple(r["ids"]) or None, r["x"])
    m = T.observe(s.start)
    return m[1][1:] if m[0] == "ok" else m
