"""menus shared by the checks"""
import random

from .. import target as T

SMALL_INT_QUICK = ["T11", "T23", "T29", "T31"]
SMALL_INT_ALL = ["T11", "T23", "T29", "T31", "T43", "T59", "T509", "T263", "T1543"]
SMALL_ED_QUICK = ["E37", "E109"]
SMALL_ED_ALL = ["E29", "E37", "E53", "E109", "E157", "E229"]


def edge_scalars(q, seed=0, fill=1):
    s = [0, 1, 2, q - 2, q - 1, (q - 1) // 2, (q + 1) // 2]
    k = 8
    while (1 << k) < q and len(s) < 12:
        s.append(1 << k)
        k *= 2
    s.append((1 << (q.bit_length() - 1)))
    rnd = random.Random("%d/%d" % (seed, q))
    for _ in range(fill):
        s.append(rnd.randrange(q))
    out = []
    for v in s:
        v %= q
        if v not in out:
            out.append(v)
    return out


PASSWORDS = [b"", b"a", b"password", b"\x00", b"\x00\x00", b"a\x00", b"\x00a", b"\xff\xfe\x80", b"p" * 65, b"\xc3\xa9" * 100]
PW_SHORT = [b"password", b"", b"\x00\xff"]

IDS_AB = [(b"", b""), (b"alice", b"bob"), (b"\x00", b""), (b"ab", b"c"), (b"a", b"bc"), (b"\xff" * 70, b"b\x00b")]
IDS_S = [(b"",), (b"sym",), (b"\x00",), (b"\xff" * 70,)]


def ids_for(side, i=0):
    return IDS_S[i % len(IDS_S)] if side == "S" else IDS_AB[i % len(IDS_AB)]


PEER = {"A": "B", "B": "A", "S": "S"}


def instances(names, acc):
    out = []
    for n in names:
        inst, why = T.try_get(n)
        if inst is None:
            acc.degrade("%s unavailable: %s" % (n, why))
        else:
            out.append(inst)
    return out


def undecodable_payload(R):
    """a string of the right width that the strict reference decoder refuses"""
    if R.kind == "int":
        return (0).to_bytes(R.esize, "big")
    y = 2
    while R.x_from_y(y, 0) is not None or R.x_from_y(y, 1) is not None:
        y += 1
    return y.to_bytes(32, "little")


_FACTS = {}


def session_facts(inst, side, pw, ids, x):
    """what the library ACTUALLY does for the session the harness asks for with scalar x: (scalar reported through serialize(),
    start() message).  The mapping entropy -> scalar is C11's subject; every other check builds its oracle on the observed scalar
    and the observed own message, so that a change of the sampler is not mis-reported under another property."""
    key = (inst.name, id(inst.params), side, pw, tuple(ids or ()), x)
    if key not in _FACTS:
        s = inst.new(side, pw, ids, x)
        m = T.observe(s.start)
        xo = T.read_scalar(inst, s) if m[0] == "ok" else None
        if xo is None:
            xo = x
        _FACTS[key] = (xo, m[1] if m[0] == "ok" else None)
        if len(_FACTS) > 200000:
            _FACTS.clear()
    return _FACTS[key]


def inbound_menu(inst, side, w, x, all_elements=False, own=None):
    """[(kind, delivered bytes)] - the inbound alphabet of C07/C08 for the session (inst, side, w, x); `own` = the message the
    instance really sent (defaults to the reference message)"""
    from ..ref import spake2 as RS
    R, rp, q = inst.ref, inst.rp, inst.q
    peer = PEER[side]
    lab = peer.encode()
    if own is None:
        own = RS.message(rp, side, w, x)
    y = (x + 1) % q
    valid = RS.message(rp, peer, w, y)
    if valid[1:] == own[1:] or (R.refuses_identity and valid[1:] == R.enc(R.identity)):
        y = (x + 2) % q
        valid = RS.message(rp, peer, w, y)
    out = [("valid", valid)]
    if all_elements:
        for k, e in enumerate(R.elements()):
            out.append(("element", lab + R.enc(e)))
    out += [("own-side", (b"A" if side == "S" else side.encode()) + valid[1:]),
            ("unknown-side", b"Z" + valid[1:]),
            ("reflected", lab + own[1:]),
            ("undecodable", lab + undecodable_payload(R)),
            ("identity", lab + R.enc(R.identity)),
            ("empty", b""),
            ("over-long", valid + b"\x00"),
            ("truncated", valid[:-1])]
    seen, ded = set(), []
    for k, b in out:
        if b not in seen:
            seen.add(b)
            ded.append((k, b))
    return ded
