"""menus shared by the checks"""
import random

from .. import target as T

SMALL_INT_QUICK = ["T11", "T23", "T29", "T31"]
SMALL_INT_ALL = ["T11", "T23", "T29", "T31", "T43", "T59", "T509", "T263", "T1543"]
SMALL_ED_QUICK = ["E37", "E109"]
SMALL_ED_ALL = ["E29", "E37", "E53", "E109", "E157", "E229"]


def edge_scalars(q, seed=0, fill=1):
    s = [0, 1, 2, q - 2, q - 1, (q - 1) // 2, (q + 1) // 2]
    k = 8
    while (1 << k) < q and len(s) < 12:
        s.append(1 << k)
        k *= 2
    s.append((1 << (q.bit_length() - 1)))
    rnd = random.Random("%d/%d" % (seed, q))
    for _ in range(fill):
        s.append(rnd.randrange(q))
    out = []
    for v in s:
        v %= q
        if v not in out:
            out.append(v)
    return out


PASSWORDS = [b"", b"a", b"password", b"\x00", b"\x00\x00", b"a\x00", b"\x00a", b"\xff\xfe\x80", b"p" * 65, b"\xc3\xa9" * 100]
PW_SHORT = [b"password", b"", b"\x00\xff"]

IDS_AB = [(b"", b""), (b"alice", b"bob"), (b"\x00", b""), (b"ab", b"c"), (b"a", b"bc"), (b"\xff" * 70, b"b\x00b")]
IDS_S = [(b"",), (b"sym",), (b"\x00",), (b"\xff" * 70,)]


def ids_for(side, i=0):
    return IDS_S[i % len(IDS_S)] if side == "S" else IDS_AB[i % len(IDS_AB)]


PEER = {"A": "B", "B": "A", "S": "S"}


def boundary_strings():
    """byte strings on length boundaries (0, 1, 31, 32, 33, 63, 64, 65, 96, 128) x distinguished trailing bytes - the alphabet
    for passwords and identities that padding / pre-hashing / trimming shortcuts are sensitive to"""
    out = []
    for n in (0, 1, 31, 32, 33, 63, 64, 65, 96, 128):
        for tail in (b"", b"\x01", b"\x02\x02", b"\x00", b"\x80", b"\xff", b" ", b"\n"):
            if len(tail) > n:
                continue
            s = bytes([0x41 + (i % 23) for i in range(n - len(tail))]) + tail
            if s not in out:
                out.append(s)
    return out


def instances(names, acc):
    out = []
    for n in names:
        inst, why = T.try_get(n)
        if inst is None:
            acc.degrade("%s unavailable: %s" % (n, why))
        else:
            out.append(inst)
    return out


def undecodable_payload(R):
    """a string of the right width that the strict reference decoder refuses"""
    if R.kind == "int":
        return (0).to_bytes(R.esize, "big")
    y = 2
    while R.x_from_y(y, 0) is not None or R.x_from_y(y, 1) is not None:
        y += 1
    return y.to_bytes(32, "little")


_FACTS = {}


def session_facts(inst, side, pw, ids, x):
    """what the library ACTUALLY does for the session the harness asks for with scalar x: (scalar reported through serialize(),
    start() message).  The mapping entropy -> scalar is C11's subject; every other check builds its oracle on the observed scalar
    and the observed own message, so that a change of the sampler is not mis-reported under another property."""
    key = (inst.name, id(inst.params), side, pw, tuple(ids or ()), x)
    if key not in _FACTS:
        s = inst.new(side, pw, ids, x)
        m = T.observe(s.start)
        xo = T.read_scalar(inst, s) if m[0] == "ok" else None
        if xo is None:
            xo = x
        _FACTS[key] = (xo, m[1] if m[0] == "ok" else None)
        if len(_FACTS) > 200000:
            _FACTS.clear()
    return _FACTS[key]


def inbound_menu(inst, side, w, x, all_elements=False, own=None):
    """[(kind, delivered bytes)] - the inbound alphabet of C07/C08 for the session (inst, side, w, x); `own` = the message the
    instance really sent (defaults to the reference message)"""
    from ..ref import spake2 as RS
    R, rp, q = inst.ref, inst.rp, inst.q
    peer = PEER[side]
    lab = peer.encode()
    if own is None:
        own = RS.message(rp, side, w, x)
    y = (x + 1) % q
    valid = RS.message(rp, peer, w, y)
    if valid[1:] == own[1:] or (R.refuses_identity and valid[1:] == R.enc(R.identity)):
        y = (x + 2) % q
        valid = RS.message(rp, peer, w, y)
    out = [("valid", valid)]
    if all_elements:
        for k, e in enumerate(R.elements()):
            out.append(("element", lab + R.enc(e)))
    out += [("own-side", (b"A" if side == "S" else side.encode()) + valid[1:]),
            ("unknown-side", b"Z" + valid[1:]),
            ("reflected", lab + own[1:]),
            ("undecodable", lab + undecodable_payload(R)),
            ("identity", lab + R.enc(R.identity)),
            ("empty", b""),
            ("over-long", valid + b"\x00"),
            ("truncated", valid[:-1])]
    seen, ded = set(), []
    for k, b in out:
        if b not in seen:
            seen.add(b)
            ded.append((k, b))
    return ded


# ---------------------------------------------------------------------------
# structured "byte-pattern" menus for the shipped (large) groups: the tiny groups are enumerated completely, but code
# paths selected by a byte value at some position of a 32..384-byte string, by a bit length or by a carry only exist at
# realistic sizes.  These menus are bounded, systematic alphabets over such patterns (not samples).

def pattern_scalars(q, level=1):
    """scalars below q with a distinguished byte (00/ff/80/01) at every byte position, every bit length, runs of ff/00.
    level 0: positions {0,1,mid,last-1,last} only"""
    nb = (q.bit_length() + 7) // 8
    pos = list(range(nb)) if level else sorted({0, 1, nb // 2, nb - 2, nb - 1})
    out = []
    base = int.from_bytes(bytes([0x5a] * nb), "big") % q
    for i in pos:
        for v in (0x00, 0xff, 0x80, 0x01):
            x = (base & ~(0xff << (8 * i))) | (v << (8 * i))
            out.append(x % q)
        out.append((0xff << (8 * i)) % q)
        out.append((1 << (8 * i)) % q)
        out.append(((1 << (8 * i)) - 1) % q)
    bits = range(1, q.bit_length() + 1) if level else range(1, q.bit_length() + 1, 8)
    for b in bits:
        out.append(((1 << b) - 1) % q)
        out.append((1 << (b - 1)) % q)
    # the band between the top power of two and the order (for Ed25519: [2^252, L), where "reduced?" checks take their slow
    # path), and the values just below the order
    t = 1 << (q.bit_length() - 1)
    gap = q - t
    for v in [1, 2, 0x7f, 0x80, 0xee, 0xff, 0x100, 0x101, 0xffff, 0x10000, gap // 2, gap // 3, gap - 1, gap - 0x100] + \
             [1 << k for k in range(0, max(1, gap.bit_length() - 1), 1 if level else 8)]:
        if 0 < v < gap:
            out.append(t + v)
    for v in (1, 2, 3, 0x10, 0xff, 0x100, 0xffff):
        out.append(q - v)
    ded = []
    for x in out:
        if x not in ded:
            ded.append(x)
    return ded


def pattern_element_scalars(R, start_elem, step_elem, want_positions=None, values=(0x00, 0xff, 0x80), limit=6000):
    """scalars k (found by walking e_k = start + k*step with the REFERENCE arithmetic) such that the encodings enc(e_k) cover
    every (byte position, value) class.  Returns {(pos, value): k}."""
    n = R.esize
    want = {(i, v) for i in (range(n) if want_positions is None else want_positions) for v in values}
    found = {}
    e = start_elem
    for k in range(limit):
        b = R.enc(e)
        for i in (range(n) if want_positions is None else want_positions):
            key = (i, b[i])
            if key in want and key not in found:
                found[key] = k
        if len(found) == len(want):
            break
        e = R.add(e, step_elem)
    return found


def modulus_prefix_scalars(R, start_elem, step_elem, limit=400000):
    """scalars k such that enc(start + k*step) shares its most significant 1 and 2 bytes with the encoding of the field
    modulus (the boundary of every range check; multi-limb comparisons take their slow path there).  {("p-prefix", n): k}"""
    if R.kind == "int":
        pm = R.p.to_bytes(R.esize, "big")
        pre = lambda b: (b[:1] == pm[:1], b[:2] == pm[:2])
    else:
        qm = (R.Q - 1).to_bytes(32, "little")
        pre = lambda b: ((b[31] & 0x7f) == qm[31], (b[31] & 0x7f) == qm[31] and b[30] == qm[30])
    if R.kind == "int":
        lowm = pm[-1]
        low = lambda b: b[-1]
    else:
        lowm = qm[0] + 1          # low byte of Q itself
        low = lambda b: b[0]
    found = {}
    e = start_elem
    for k in range(limit):
        b = R.enc(e)
        one, two = pre(b)
        if one:
            if ("p-prefix", 1) not in found:
                found[("p-prefix", 1)] = k
            # most significant byte equal to the modulus's AND least significant byte at/above resp. below the modulus's
            if low(b) >= lowm and ("p-prefix1+low>=", 1) not in found:
                found[("p-prefix1+low>=", 1)] = k
            if low(b) < lowm and ("p-prefix1+low<", 1) not in found:
                found[("p-prefix1+low<", 1)] = k
        if two:
            found[("p-prefix", 2)] = k
            if len(found) >= 4:
                break
        if k > limit // 2 and ("p-prefix", 2) in found:
            break
        e = R.add(e, step_elem)
    return found


def element_pattern_multiples(R, level=1):
    """{class: k} multiples k*Base whose ENCODING covers the byte-pattern and modulus-prefix classes (for codec/decoder checks)"""
    out = dict(pattern_element_scalars(R, R.base(), R.base(), pattern_positions(R, level)))
    out = {key: k + 1 for key, k in out.items()}
    lim = 400000 if R.kind == "int" else 100000
    for key, k in modulus_prefix_scalars(R, R.base(), R.base(), lim if level else lim // 3).items():
        out[key] = k + 1
    name = {"ed": "ParamsEd25519"}.get(R.kind) if R.kind == "ed" and getattr(R, "Q", 0) > 10**6 else None
    if R.kind == "int":
        for n in ("Params1024", "Params2048", "Params3072"):
            if T.ref_shipped_group(n).p == R.p:
                name = n
    for c, k in rare_multiples(name).items():
        out[("rare", c)] = k
    return out


def pattern_positions(R, level):
    n = R.esize
    if level or n <= 32:
        return None            # all positions
    return sorted({0, 1, 2, n // 3, n // 2, n - 3, n - 2, n - 1})


def pattern_sessions(inst, side, pw, level):
    """[(x, y, inbound, tag)] for the shipped groups: own scalars x whose MESSAGE covers every (byte position, 00/ff/80) class
    and the modulus-prefix classes, peer scalars y whose message (the INBOUND element) covers them, peer scalars for which the
    shared element K = x*y*G covers them, and scalars with a distinguished byte at every position / every bit length.
    level 0 = quick subset.  inbound = message(peer, w, y)."""
    from ..ref import spake2 as RS
    R, rp, q = inst.ref, inst.rp, inst.q
    w = R.pw_scalar(pw)
    peer = PEER[side]
    G = R.base()
    out = []
    pos = pattern_positions(R, level)
    y0 = 0x1234567 % q
    x0 = 0x7654321 % q
    lim = 400000 if level else 120000
    if R.kind != "int":
        lim //= 4
    inbound0 = RS.message(rp, peer, w, y0)
    own = dict(pattern_element_scalars(R, R.mul(rp.blind(side), w), G, pos))
    if level:
        own.update(modulus_prefix_scalars(R, R.mul(rp.blind(side), w), G, lim))
    for key, k in sorted(own.items(), key=lambda kv: str(kv[0])):
        out.append((k % q, y0, inbound0, "msg[%s]=%s" % key))
    theirs = dict(pattern_element_scalars(R, R.mul(rp.blind(peer), w), G, pos))
    if level:
        theirs.update(modulus_prefix_scalars(R, R.mul(rp.blind(peer), w), G, lim))
    for key, k in sorted(theirs.items(), key=lambda kv: str(kv[0])):
        out.append((x0, k % q, RS.message(rp, peer, w, k % q), "inbound[%s]=%s" % key))
    ks = pattern_element_scalars(R, R.identity, R.mul(G, x0), pos)
    for key, k in sorted(ks.items()):
        if k == 0:
            continue
        out.append((x0, k % q, RS.message(rp, peer, w, k % q), "K[%d]=%02x" % key))
    for x in pattern_scalars(q, level):
        out.append((x, y0, inbound0, "scalar-pattern"))
    seen, ded = set(), []
    for x, y, inb, tag in out:
        if (x, y) not in seen:
            seen.add((x, y))
            ded.append((x, y, inb, tag))
    return ded


_RARE = {}


def rare_multiples(name):
    """{class: k}: frozen multiples k*Base of a shipped group whose encoding falls into a rare structural class (two leading or
    trailing zero bytes, leading bytes equal to the modulus's, combined with the low byte above/below the modulus's ...), found
    once by tools/make_rare.py with the reference arithmetic (facts about the published groups)"""
    if not _RARE:
        import json, os
        p = os.path.join(os.path.dirname(os.path.dirname(os.path.abspath(__file__))), "ref", "rare_multiples.json")
        try:
            d = json.load(open(p))
        except Exception:
            d = {}
        for n, v in d.items():
            _RARE[n] = {c: int(k) for c, k in v["classes"].items()}
    return _RARE.get(name, {})


PATTERNS = {}


def _compute_patterns(task):
    name, side, pw, level = task
    return task, pattern_sessions(T.get(name), side, pw, level)


def prepare_patterns(names, sides, pw, level):
    """compute the pattern sessions once (in parallel) in the parent; forked workers then read PATTERNS"""
    from .. import core
    tasks = [(n, s, pw, level) for n in names for s in sides if (n, s, pw, level) not in PATTERNS and T.try_get(n)[0] is not None]
    for task, res in core.pmap(_compute_patterns, tasks):
        PATTERNS[task] = res


_compute_patterns.returns_tuple = True
