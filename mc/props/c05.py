"""C05 - inbound elements are decoded strictly: canonical, exact length, in subgroup.

Every byte string of a bounded space goes through the group's real bytes_to_element (and
through finish() on a started session); oracle = the reference strict decoder."""
import itertools
from .. import target as T, core
from ..core import Acc
from ..ref.edwards import RefEdwards, Q25519, L25519
from . import common as C

LEVEL = "model_checking"
RULE = ("integer toys with 1-byte elements: EVERY byte string of length 0..2 (quick) / 0..3 (thorough); 2-byte-element toys: every "
        "string of length 0..2 plus structured 3-byte strings; toy Edwards curves: raw y in [0,4Q) u [2^255-2Q,2^255) x sign bit at "
        "length 32, and for every such string that anyone accepts all lengths 0..34 and 64; shipped groups: constructed classes "
        "(8 small-order points in every encoding, subgroup point + each torsion point, off-curve, y>=Q, sign on x=0, all lengths "
        "0..40,64; 0,1,p-1,p,p+1,2^(8n)-1, non-members, leading-zero truncation/extension). Each string also goes through finish() "
        "on a started session where noted. distinct_nontrivial = distinct (instance kind, reference class of the string, outcome) "
        "combinations other than 'valid encoding accepted'")
ASSUMPTIONS = ["asserts enabled (the integer decoder rejects wrong lengths with assert)",
               "reference strict decoders mc/ref/intgroup.py, mc/ref/edwards.py (RFC 8032 style) are the specification",
               "toy Edwards instances run the library's own ed25519_basic.py with patched module globals (trust gate on inlined constants)"]
EXHAUSTIVE = True


def bounds(tier):
    return {"int_1byte_string_len": 2 if tier == "quick" else 3, "ed_toy_raw_y_window": "[0,4Q) u [2^255-2Q,2^255) x sign",
            "lengths": "0..34, 64 (toy) / 0..40, 64 (Ed25519)"}


# ---------------------------------------------------------------------------

def classify(R, b):
    """reference class of a byte string"""
    if len(b) != R.esize:
        return "wrong-length"
    if R.kind == "int":
        i = int.from_bytes(b, "big")
        if i == 0:
            return "zero"
        if i >= R.p:
            return "not-below-p"
        if not R.member(i):
            return "non-member"
        return "valid"
    v = int.from_bytes(b, "little")
    sign, y = v >> 255, v & ((1 << 255) - 1)
    if y >= R.Q:
        return "y-not-reduced"
    x = R.x_from_y(y, sign)
    if x is None:
        if R.x_from_y(y, 0) == 0:
            return "sign-bit-on-x0"
        return "off-curve"
    P = (x, y)
    if P == (0, 1):
        return "identity"
    o = R.order_of(P)
    if o in (2, 4, 8):
        return "small-order"
    if o != R.L:
        return "off-subgroup"
    return "valid"


def fam(inst):
    return inst.kind if inst.small else inst.name


def judge(inst, b, acc, via="bytes_to_element", cls=None):
    """run one string through the real decoder and compare with the strict reference"""
    R = inst.ref
    exp = R.dec_strict(b)
    got = T.observe(lambda: inst.group.bytes_to_element(b).to_bytes())
    acc.n(transitions=1)
    if exp is None:
        if got[0] == "ok":
            c = cls or classify(R, b)
            acc.violation("C05/%s/accepts-%s" % (fam(inst), c),
                          {"what": "bytes_to_element accepts a %s string" % c, "inst": inst.desc,
                           "replay": {"fn": "decode", "inst": inst.desc, "b": b}, "expected": "raises", "observed": got})
            return "accepted-bad"
        return "rejected"
    if got[0] != "ok":
        acc.violation("C05/%s/rejects-valid" % fam(inst),
                      {"what": "bytes_to_element rejects the canonical encoding of a subgroup element", "inst": inst.desc,
                       "replay": {"fn": "decode", "inst": inst.desc, "b": b}, "expected": b, "observed": got})
        return "rejected-good"
    if got[1] != b:
        acc.violation("C05/%s/reencodes-differently" % fam(inst),
                      {"what": "an accepted string does not re-encode to itself", "inst": inst.desc,
                       "replay": {"fn": "decode", "inst": inst.desc, "b": b}, "expected": b, "observed": got})
    return "accepted"


def judge_finish(inst, side, b, acc, restored=False):
    """finish(label || b) on a started session never derives a key from a string the strict decoder refuses"""
    R = inst.ref
    if R.dec_strict(b) is not None:
        return
    s = inst.new(side, b"pw", x=2 % inst.q)
    s.start()
    if restored:
        s = inst.restore(side, s.serialize())
    label = C.PEER[side].encode()
    got = T.observe(s.finish, label + b)
    acc.n(transitions=1)
    if got[0] == "ok":
        c = classify(R, b)
        acc.violation("C05/%s/finish-accepts-%s" % (fam(inst), c),
                      {"what": "finish() derives a key from a %s peer element" % c, "inst": inst.desc,
                       "replay": {"fn": "finish", "inst": inst.desc, "side": side, "b": b, "restored": restored},
                       "expected": "raises", "observed": ("ok", "key")})


# ---------------------------------------------------------------------------
# integer toys: every string

def _int_strings_task(task):
    name, length, first, with_finish = task
    acc = Acc()
    inst, why = T.try_get(name)
    if inst is None:
        acc.degrade("%s unavailable: %s" % (name, why))
        return acc
    R = inst.ref
    if first is None:
        gen = (bytes(t) for t in itertools.product(range(256), repeat=length))
    else:
        gen = (bytes((first,) + t) for t in itertools.product(range(256), repeat=length - 1))
    n = 0
    for b in gen:
        out = judge(inst, b, acc)
        n += 1
        acc.seen((inst.kind, len(b) == R.esize, out))
        if with_finish:
            judge_finish(inst, "A", b, acc)
    acc.n(states=n, traces=n)
    acc.inst(name, strings=n)
    if first in (None, 0):
        acc.sample({"inst": name, "string": b, "reference": classify(R, b), "library": T.observe(lambda: inst.group.bytes_to_element(b).to_bytes())})
    return acc


def _int_structured_task(name):
    acc = Acc()
    inst, why = T.try_get(name)
    if inst is not None:
        _int_structured(inst, acc)
    return acc


def _int_structured(inst, acc):
    R = inst.ref
    es = R.esize
    cand = set()
    for v in (0, 1, 2, R.p - 1, R.p, R.p + 1, (1 << 8 * es) - 1, R.g, R.p - R.g, R.p + R.g if R.p + R.g < (1 << 8 * es) else 3):
        if 0 <= v < (1 << 8 * es):
            cand.add(v.to_bytes(es, "big"))
    for e in R.elements()[:40] if inst.small else [R.mul(R.base(), k) for k in (1, 2, 3, R.q - 1)]:
        b = R.enc(e)
        cand |= {b, b + b"\x00", b"\x00" + b, b[1:], b[:-1], b + b, b + b[:1]}
        if b[0] == 0:
            cand.add(b[1:])
    for b in sorted(cand):
        out = judge(inst, b, acc)
        acc.seen((inst.kind, classify(R, b), out))
        for side in "ABS":
            judge_finish(inst, side, b, acc)
        judge_finish(inst, "B", b, acc, restored=True)
    acc.n(states=len(cand), traces=len(cand))
    acc.inst(inst.name, structured=len(cand))


# ---------------------------------------------------------------------------
# toy Edwards curves: raw-y window x sign x lengths

def _ed_toy_task(name):
    acc = Acc()
    inst, why = T.try_get(name)
    if inst is None:
        acc.degrade("%s unavailable: %s" % (name, why))
        return acc
    R = inst.ref
    Q = R.Q
    ys = list(range(0, 4 * Q)) + list(range((1 << 255) - 2 * Q, 1 << 255))
    n = 0
    interesting = []
    for y in ys:
        for sign in (0, 1):
            b = (y | (sign << 255)).to_bytes(32, "little")
            cls = classify(R, b)
            out = judge(inst, b, acc, cls=cls)
            n += 1
            acc.seen(("ed", cls, out))
            if out != "rejected" or cls in ("identity", "small-order", "off-subgroup"):
                interesting.append(b)
    # wrong lengths for every string anyone accepts (and the near-valid classes)
    for b in interesting:
        for k in list(range(0, 32)):
            vb = b[:k]
            out = judge(inst, vb, acc)
            n += 1
            acc.seen(("ed", "prefix", out))
        for ext in (b"\x00", b"\xff", b[:1], b"\x00\x00", b, b"\x00" * 32):
            vb = b + ext
            out = judge(inst, vb, acc)
            n += 1
            acc.seen(("ed", "extended", out))
        for side in "ABS":
            judge_finish(inst, side, b, acc)
            judge_finish(inst, side, b + b, acc)
            judge_finish(inst, side, b + b"\x00", acc)
        judge_finish(inst, "A", b, acc, restored=True)
    acc.n(states=n, traces=n)
    acc.inst(name, strings=n, near_valid=len(interesting))
    acc.sample({"inst": name, "raw_y": ys[1], "sign": 1, "reference": classify(R, (ys[1] | (1 << 255)).to_bytes(32, "little"))})
    return acc


# ---------------------------------------------------------------------------
# shipped groups: constructed classes

def _ed_real(acc, seed):
    inst, why = T.try_get("ParamsEd25519")
    if inst is None:
        acc.degrade("ParamsEd25519 unavailable: " + str(why))
        return
    R = inst.ref
    Q = R.Q
    cand = {}

    def put(b, tag):
        cand.setdefault(bytes(b), tag)

    def enc_raw(y, sign):
        return (y | (sign << 255)).to_bytes(32, "little")

    tors = R.torsion()
    for t in tors:
        put(R.enc(t), "torsion-canonical")
        x, y = t
        for yy in (y, y + Q):
            if yy < (1 << 255):
                for s in (0, 1):
                    put(enc_raw(yy, s), "torsion-all-encodings")
    # non-reduced y for small y (0..18 -> Q..Q+18)
    for y in range(0, 19):
        for s in (0, 1):
            put(enc_raw(y, s), "small-y")
            put(enc_raw(y + Q, s), "small-y-nonreduced")
    put(enc_raw((1 << 255) - 1, 0), "y-max")
    put(enc_raw((1 << 255) - 1, 1), "y-max")
    # subgroup points and their torsion shifts
    import random
    rnd = random.Random(seed)
    ks = [1, 2, 3, R.L - 1, (R.L + 1) // 2, rnd.randrange(R.L)]
    for k in ks:
        P = R.mul(R.base(), k)
        put(R.enc(P), "valid")
        put(R.enc(R.neg(P)), "valid")
        flipped = bytearray(R.enc(P))
        flipped[31] ^= 0x80
        put(flipped, "valid-sign-flipped")
        for t in tors[1:] if tors[0] == (0, 1) else [t for t in tors if t != (0, 1)]:
            put(R.enc(R.add(P, t)), "subgroup+torsion")
    # off-curve y
    y, found = 2, 0
    while found < 4:
        if R.x_from_y(y, 0) is None and R.x_from_y(y, 1) is None:
            put(enc_raw(y, 0), "off-curve")
            put(enc_raw(y, 1), "off-curve")
            found += 1
        y += 1
    # a valid point whose encoding ends in 0x00: the 31-byte truncation denotes the same integer
    P, k = R.B, 1
    while R.enc(P)[-1] != 0 and k < 20000:
        P = R.add(P, R.B)
        k += 1
    base_strings = [R.enc(R.B), R.enc(R.mul(R.base(), 7))]
    if R.enc(P)[-1] == 0:
        base_strings.append(R.enc(P))
        acc.note("Ed25519: %d*B encodes with a trailing zero byte (used for the truncation class)" % k)
    import binascii, base64
    for b in base_strings:
        for t in (binascii.hexlify(b), binascii.hexlify(b).upper(), base64.b64encode(b), b"0x" + binascii.hexlify(b), base64.b16encode(b)[:32]):
            put(t, "text-encoding")
    for b in base_strings:
        put(b, "valid")
        for n in range(0, 32):
            put(b[:n], "truncated")
        for n in range(33, 41):
            put(b + b"\x00" * (n - 32), "extended-zero")
            put(b + b"\xff" * (n - 32), "extended-ff")
        put(b + b, "doubled")
        put(b + R.enc(R.B), "extended-element")
    for key, k in sorted(C.element_pattern_multiples(R, 1).items(), key=lambda kv: str(kv[0])):
        put(R.enc(R.mul(R.base(), k)), "valid-pattern")
    items = sorted(cand.items())
    core.pmerge(_ed_real_chunk, core.chunks([b for b, _ in items], 32), acc)
    acc.inst("ParamsEd25519", strings=len(items))
    acc.sample({"inst": "ParamsEd25519", "string": enc_raw(1, 1), "reference": classify(R, enc_raw(1, 1))})


def _ed_real_chunk(bs):
    acc = Acc()
    inst = T.get("ParamsEd25519")
    R = inst.ref
    for b in bs:
        cls = classify(R, b)
        out = judge(inst, b, acc, cls=cls)
        acc.seen(("ed25519", cls, out))
        if cls != "valid":
            for side in "ABS":
                judge_finish(inst, side, b, acc)
            judge_finish(inst, "A", b, acc, restored=True)
    acc.n(states=len(bs), traces=len(bs))
    return acc


def _int_real_task(name):
    acc = Acc()
    inst, why = T.try_get(name)
    if inst is None:
        acc.degrade("%s unavailable: %s" % (name, why))
        return acc
    R = inst.ref
    es = R.esize
    cand = set()
    for v in (0, 1, 2, 3, R.p - 2, R.p - 1, R.p, R.p + 1, (1 << 8 * es) - 1, R.g, R.p - R.g, R.p + 1 + R.g):
        if 0 <= v < (1 << 8 * es):
            cand.add(v.to_bytes(es, "big"))
    e, k = R.g, 1
    while e >> (8 * (es - 1)) and k < 5000:
        e = e * R.g % R.p
        k += 1
    elems = [R.g, R.mul(R.g, R.q - 1)]
    if not e >> (8 * (es - 1)):
        elems.append(e)
        acc.note("%s: g^%d has a leading zero byte (used for the truncation class)" % (name, k))
    import binascii, base64
    for e in elems:
        b = R.enc(e)
        cand |= {b, b + b"\x00", b"\x00" + b, b[1:], b[:-1], b + b, b"", b[:1]}
        cand |= {binascii.hexlify(b), binascii.hexlify(b).upper(), base64.b64encode(b), binascii.hexlify(b)[:es]}
    # valid elements whose encoding carries a distinguished byte at the boundary positions / shares leading bytes with p
    for key, k in sorted(C.element_pattern_multiples(R, 0).items(), key=lambda kv: str(kv[0])):
        cand.add(R.enc(R.mul(R.base(), k)))
    n = 0
    for b in sorted(cand):
        cls = classify(R, b)
        out = judge(inst, b, acc, cls=cls)
        acc.seen((name, cls, out))
        n += 1
        if cls != "valid":
            for side in "AS":
                judge_finish(inst, side, b, acc)
    acc.n(states=n, traces=n)
    acc.inst(name, strings=n)
    return acc


# ---------------------------------------------------------------------------
# bytes-like carriers and the keyword spelling of the decoder call: a string handed over in another buffer type is still THAT
# string (its raw bytes); the decoder may refuse the carrier, it may not accept a string the strict decoder refuses, nor accept a
# carrier and re-encode to something other than its raw bytes

def _swap(b, k):
    b = b + b"\x00" * (-len(b) % k)
    return b"".join(b[i:i + k][::-1] for i in range(0, len(b), k))


def carriers(raw):
    """(name, object, raw bytes the object stands for)"""
    import array
    out = [("bytearray", bytearray(raw), raw), ("memoryview", memoryview(raw), raw), ("array-B", array.array("B", raw), raw)]
    for code, k in (("H", 2), ("I", 4), ("Q", 8)):
        if len(raw) % k == 0 and raw:
            out.append(("memoryview-cast-" + code, memoryview(raw).cast(code), raw))
            a = array.array(code)
            a.frombytes(raw)
            out.append(("array-" + code, a, raw))
    return out


def carrier_strings(R, valid):
    """raw strings worth wrapping: each valid encoding, extended by junk to 2x/4x/8x its size (plain and with the bytes of every
    2/4/8-byte item swapped - what a decoder that counts ITEMS and reverses them would read), truncated, empty"""
    out = []
    for e in valid:
        out.append(e)
        for k in (2, 4, 8):
            junk = bytes((17 * i + 3) % 251 for i in range(len(e) * (k - 1)))
            out.append(e + junk)
            out.append(_swap(e + junk, k))
            out.append(junk + e)
            out.append(_swap(junk + e, k))
            out.append(_swap(e, k)[:len(e)] if len(e) % k == 0 else e)
        out.append(e[:-1])
    out.append(b"")
    seen, res = set(), []
    for b in out:
        if b not in seen:
            seen.add(b)
            res.append(b)
    return res


def judge_carrier(inst, how, obj, raw, acc, keyword=False):
    R = inst.ref
    exp = R.dec_strict(raw)
    g = inst.group
    got = T.observe(lambda: (g.bytes_to_element(b=obj) if keyword else g.bytes_to_element(obj)).to_bytes())
    acc.n(transitions=1)
    acc.seen((fam(inst), how, keyword, got[0], exp is None))
    if got[0] != "ok":
        return                                                  # refusing a carrier (or the keyword spelling) is always acceptable
    if exp is None or bytes(got[1]) != raw or not isinstance(got[1], bytes):
        c = classify(R, raw) if exp is None else "valid"
        acc.violation("C05/%s/carrier-%s%s" % (fam(inst), how.split("-")[0], "-keyword" if keyword else ""),
                      {"what": "bytes_to_element(%s%s) accepts a buffer whose raw bytes are a %s string (%d bytes) or re-encodes it to other bytes" %
                               ("b=" if keyword else "", how, c, len(raw)), "inst": inst.desc,
                       "replay": {"fn": "carrier", "inst": inst.desc, "how": how, "raw": raw, "keyword": keyword}, "expected": "raises" if exp is None else raw,
                       "observed": got})


def _carrier_task(name):
    acc = Acc()
    inst, why = T.try_get(name)
    if inst is None:
        return acc
    R = inst.ref
    if inst.small:
        valid = [R.enc(e) for e in R.elements()[1:6]]
    else:
        valid = [R.enc(R.mul(R.base(), k)) for k in (1, 5, R.q - 2)]
    n = 0
    for raw in carrier_strings(R, valid):
        for how, obj, rb in carriers(raw):
            judge_carrier(inst, how, obj, rb, acc)
            n += 1
        # keyword spelling of the call, plain bytes and one carrier
        judge_carrier(inst, "bytes", raw, raw, acc, keyword=True)
        judge_carrier(inst, "bytearray", bytearray(raw), raw, acc, keyword=True)
    # all short strings through the keyword spelling on toy groups
    if inst.small and R.esize == 1:
        for ln in (0, 1, 2):
            for v in range(256 ** ln):
                b = v.to_bytes(ln, "big") if ln else b""
                judge_carrier(inst, "bytes", b, b, acc, keyword=True)
                judge_carrier(inst, "bytearray", bytearray(b), b, acc)
    acc.n(states=n, traces=1)
    acc.inst(name, carriers=n)
    return acc


def run(tier, seed):
    acc = Acc()
    quick = tier == "quick"
    one_byte = ["T11", "T23", "T29", "T31"] if quick else ["T11", "T23", "T29", "T31", "T43", "T59"]
    two_byte = ["T509"] if quick else ["T509", "T263", "T1543"]
    tasks = []
    for name in one_byte:
        tasks += [(name, 0, None, True), (name, 1, None, True)]
        tasks += [(name, 2, f, name in ("T23", "T29")) for f in range(0, 256, 1)] if not quick else \
                 [(name, 2, f, name in ("T23",)) for f in range(0, 256)]
        if not quick:
            tasks += [(name, 3, f, False) for f in range(256)]
    for name in two_byte:
        tasks += [(name, 0, None, True), (name, 1, None, True), (name, 2, None, True)]
    core.pmerge(_int_strings_task, tasks, acc)
    core.pmerge(_int_structured_task, one_byte + two_byte, acc)
    core.pmerge(_ed_toy_task, C.SMALL_ED_QUICK if quick else C.SMALL_ED_ALL, acc)
    core.pmerge(_int_real_task, ["Params1024", "Params2048", "Params3072"], acc)
    _ed_real(acc, seed)
    core.pmerge(_carrier_task, ["T23", "T509", "E37", "E109", "ParamsEd25519", "Params1024"] + ([] if quick else ["T29", "T1543", "E53", "Params2048", "Params3072"]), acc)
    return acc


def replay(rec):
    r = T.unjson(rec["replay"])
    inst = T.build_inst(r["inst"])
    if r["fn"] == "decode":
        return T.observe(lambda: inst.group.bytes_to_element(r["b"]).to_bytes())
    if r["fn"] == "carrier":
        obj = r["raw"] if r["how"] == "bytes" else [o for h, o, _ in carriers(r["raw"]) if h == r["how"]][0]
        g = inst.group
        return T.observe(lambda: (g.bytes_to_element(b=obj) if r.get("keyword") else g.bytes_to_element(obj)).to_bytes())
    s = inst.new(r["side"], b"pw", x=2 % inst.q)
    s.start()
    if r.get("restored"):
        s = inst.restore(r["side"], s.serialize())
    got = T.observe(s.finish, C.PEER[r["side"]].encode() + r["b"])
    return ("ok", "key") if got[0] == "ok" else got
