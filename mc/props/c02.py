"""C02 - any mismatch or in-flight tampering prevents agreement on a key.

Fault enumeration: an adversary menu T (every bit flip, truncation, extension, side byte,
substitution; on 1-byte-element toy groups EVERY delivered string up to a length) is applied
to both directions; finish() at one end depends only on what that end is given, so the
|T|x|T| two-sided deliveries are decided by 2|T| finish() calls and a dictionary join on the
returned keys.  Plus all ordered pairs of a configuration menu and parameter-set mismatches."""
import copy, itertools
from .. import target as T, core
from ..core import Acc
from ..ref import spake2 as RS
from . import common as C

LEVEL = "fault_enumeration"
RULE = ("per base exchange (instance, flavour, pw, ids, x != y): adversary menu T applied to each direction (identity, every single-bit flip, "
        "every truncation, extensions by 00/ff/sender payload/receiver payload/whole message, all 256 side bytes + none, substitution by "
        "identity, G, M, N, S, -P, 2P, P+G, small-order points, P+torsion, other sessions' messages, receiver's own message); toy groups "
        "with 1-byte elements: every delivered byte string of total length <= 2 and every 3-byte string labelled A/B/S (quick) / <= 3 "
        "(thorough); join over T x T. configuration menu: all ordered pairs of 20 (pw, ids) tuples, and all ordered pairs of 46 tuples whose identities/passwords a text, hex or base64 "
        "representation would confuse, with neither / both / one end persisted and restored before finish(); parameter mismatches (re-seeded M/N/S, "
        "swapped M/N, other group of equal width). oracle: equal keys only for (unmodified, unmodified, same configuration) unless the "
        "strict-decoding reference protocol itself agrees (counted as protocol_degenerate). evaluations = finish() calls on the real "
        "code; distinct_nontrivial = distinct (instance family, fault kind, outcome class) combinations with fault kind != identity")
ASSUMPTIONS = ["reference = SPAKE2 with strict fixed-width decoding (mc/ref)", "asserts enabled",
               "receivers on the shipped groups are shallow copies (copy.copy) of one started instance, to avoid re-running start() per fault"]
EXHAUSTIVE = True


def bounds(tier):
    q = tier == "quick"
    return {"all_strings_len": {"T23": 3 if not q else "<=2 + labelled 3", "T29": "<=2 + labelled 3", "T11": 3 if not q else None},
            "menu_instances": ["T23", "E37", "E109"] + T.SHIPPED, "config_menu": len(CONFIGS_AB), "confusable_config_menu": len(CONFUSABLE_AB),
            "bitflips_on_2048_3072": "all" if not q else "every bit of first/last 2 bytes + one bit per other byte"}


def fam(inst):
    return inst.kind if inst.small else inst.name.split("+")[0].split("'")[0]


# ---------------------------------------------------------------------------
# receivers

class Receiver:
    """produces finish(delivered) outcomes for one fixed session (inst, side, pw, ids, x), each on an unused instance"""

    def __init__(self, inst, side, pw, ids, x, restored=False, clone=False):
        self.inst, self.side, self.pw, self.ids, self.x = inst, side, pw, ids, x
        self.restored, self.clone = restored, clone
        self.w = inst.ref.pw_scalar(pw)
        s = inst.new(side, pw, ids, x)
        self.msg = s.start()
        xo = T.read_scalar(inst, s)
        self.xo = x if xo is None else xo      # scalar the instance reports (C11 judges the sampler)
        self.blob = s.serialize() if restored else None
        self.proto = inst.restore(side, self.blob) if restored else s
        self.used_proto = False

    def fresh(self):
        if self.clone:
            return T.snapshot(self.proto)
        if not self.used_proto:
            self.used_proto = True
            return self.proto
        if self.restored:
            return self.inst.restore(self.side, self.blob)
        s = self.inst.new(self.side, self.pw, self.ids, self.x)
        s.start()
        return s

    def lib(self, delivered):
        got = T.observe(self.fresh().finish, delivered)
        return got[1] if got[0] == "ok" else None

    def ref(self, delivered):
        r = RS.finish(self.inst.rp, self.side, self.pw, self.w, self.ids, self.xo, delivered)
        return r[1] if r[0] == "key" else None

    def desc(self):
        return {"inst": self.inst.desc, "side": self.side, "pw": self.pw, "ids": list(self.ids), "x": self.x,
                "restored": self.restored, "clone": self.clone}


def tamper_menu(R, rp, msg, recv_msg, others, quick_bits=False, quick_trunc=False):
    """[(kind, delivered bytes)] for a message msg = label + payload travelling to the receiver whose own message is recv_msg"""
    out = [("identity", msg)]
    n = len(msg)
    label, payload = msg[:1], msg[1:]
    if quick_bits and n > 200:
        bits = [(i, b) for i in (0, 1, 2, n - 2, n - 1) for b in range(8)] + [(i, (i * 3) % 8) for i in range(3, n - 2)]
    else:
        bits = [(i, b) for i in range(n) for b in range(8)]
    for i, b in bits:
        m = bytearray(msg)
        m[i] ^= 1 << b
        out.append(("bitflip" if i else "bitflip-side", bytes(m)))
    ks = range(n) if not (quick_trunc and n > 200) else sorted(set([0, 1, 2, 3, n // 2, n - 3, n - 2, n - 1] + list(range(0, n, 16))))
    for k in ks:
        out.append(("truncate", msg[:k]))
    out += [("extend", msg + b"\x00"), ("extend", msg + b"\xff"), ("extend", msg + payload), ("extend", msg + recv_msg[1:]),
            ("extend", msg + msg), ("extend", msg + b"\x00" * len(payload)), ("prepend", b"\x00" + msg), ("prepend", label + b"\x00" + payload),
            ("prepend", label + b"\x00" + payload[:-1])]
    if payload[:1] == b"\x00":
        # the same integer with leading zero bytes removed (a decoder that forgets the exact-length rule accepts it)
        out.append(("strip-zero", label + payload[1:]))
        out.append(("strip-zero", label + (payload.lstrip(b"\x00") or b"\x00")))
    out.append(("pad-zero", label + b"\x00\x00" + payload))
    for v in range(256):
        if bytes([v]) != label:
            out.append(("side", bytes([v]) + payload))
    out.append(("side", payload))
    P = R.dec_strict(payload) if payload != R.enc(R.identity) else R.identity
    G = R.base()
    subs = [("identity", R.identity), ("G", G), ("M", rp.M), ("N", rp.N), ("S", rp.S)]
    if P is not None:
        subs += [("-P", R.neg(P)), ("2P", R.add(P, P)), ("P+G", R.add(P, G)), ("P-G", R.add(P, R.neg(G)))]
        if R.kind == "ed":
            for i, t in enumerate(R.torsion()):
                subs.append(("torsion", t))
                subs.append(("P+torsion", R.add(P, t)))
    for name, e in subs:
        out.append(("subst:" + name, label + R.enc(e)))
    if R.kind == "ed" and P is not None:
        # re-encodings of the same point
        x, y = P
        if y + R.Q < (1 << 255):
            out.append(("reencode", label + ((y + R.Q) | ((x & 1) << 255)).to_bytes(32, "little")))
        flipped = bytearray(payload)
        flipped[31] ^= 0x80
        out.append(("reencode", label + bytes(flipped)))
    if R.kind == "int" and P is not None:
        if P + R.p < (1 << (8 * R.esize)):
            out.append(("reencode", label + (P + R.p).to_bytes(R.esize, "big")))
        out.append(("reencode", label + (R.p - P).to_bytes(R.esize, "big")))
    for name, m in others:
        out.append(("other:" + name, m))
    import binascii, base64
    out += [("text-encoding", label + binascii.hexlify(payload)), ("text-encoding", label + binascii.hexlify(payload).upper()),
            ("text-encoding", label + base64.b64encode(payload)), ("text-encoding", binascii.hexlify(msg))]
    out.append(("reflect", recv_msg))
    out.append(("reflect", label + recv_msg[1:]))
    seen, ded = set(), []
    for k, b in out:
        if b not in seen:
            seen.add(b)
            ded.append((k, b))
    return ded


# ---------------------------------------------------------------------------
# experiments: two receivers, two delivery lists; finish() calls are farmed out in chunks, the join happens in the parent

EXPERIMENTS = []   # filled by the parent before the fork; workers index into it


def rspec(name, side, pw, ids, x, restored=False, clone=False):
    return (name, side, pw, ids, x, restored, clone)


def mk_receiver(spec):
    name, side, pw, ids, x, restored, clone = spec
    inst = T.get(name)
    return Receiver(inst, side, pw, ids, x, restored, clone)


def _eval_job(job):
    eid, which, lo, hi = job
    exp = EXPERIMENTS[eid]
    r = mk_receiver(exp["r"][which])
    ds = exp["T"][which]
    out = []
    for i in range(lo, hi):
        k = r.lib(ds[i][1])
        if k is not None:
            out.append((i, k))
    return eid, which, out, hi - lo


def leading_zero_scalars(inst, pw):
    """two scalars (for side A / B resp. S / S) whose blinded element has a leading zero byte, found with the reference arithmetic"""
    R, rp = inst.ref, inst.rp
    w = R.pw_scalar(pw)
    found = {"A": [], "B": [], "S": []}
    for side in ("A", "B", "S"):
        e = R.mul(rp.blind(side), w)
        for x in range(0, min(R.q, 8000)):
            if R.enc(e)[0] == 0:
                found[side].append(x)
                if len(found[side]) == 2:
                    break
            e = R.add(e, R.base())
    out = {}
    if found["A"] and found["B"]:
        out["AB"] = (found["A"][0], found["B"][0])
    if len(found["S"]) == 2:
        out["SS"] = tuple(found["S"])
    return out


def add_menu_experiment(name, flavour, pw, x, y, restored, tier, acc):
    inst, why = T.try_get(name)
    if inst is None:
        acc.degrade("%s unavailable: %s" % (name, why))
        return
    R, rp = inst.ref, inst.rp
    s1, s2 = ("A", "B") if flavour == "AB" else ("S", "S")
    ids = (b"ia", b"ib") if flavour == "AB" else (b"is",)
    clone = not inst.small
    sa, sb = rspec(name, s1, pw, ids, x, restored, clone), rspec(name, s2, pw, ids, y, restored, clone)
    rA, rB = mk_receiver(sa), mk_receiver(sb)
    if rA.msg[1:] == rB.msg[1:]:
        acc.note("%s: base exchange with equal payloads skipped" % name)
        return
    w, q = rA.w, inst.q
    others_to_A = [("same-pw", RS.message(rp, s2, w, (y + 1) % q)), ("other-pw", RS.message(rp, s2, (w + 1) % q, y)),
                   ("wrong-role", RS.message(rp, s1, w, y))]
    others_to_B = [("same-pw", RS.message(rp, s1, w, (x + 1) % q)), ("other-pw", RS.message(rp, s1, (w + 1) % q, x)),
                   ("wrong-role", RS.message(rp, s2, w, x))]
    quick = tier == "quick"
    TA = tamper_menu(R, rp, rB.msg, rA.msg, others_to_A, quick_bits=quick, quick_trunc=quick)
    TB = tamper_menu(R, rp, rA.msg, rB.msg, others_to_B, quick_bits=quick, quick_trunc=quick)
    EXPERIMENTS.append({"kind": "menu", "name": name, "tag": flavour + ("/restored" if restored else ""), "r": (sa, sb), "T": (TA, TB),
                        "honest": (rB.msg, rA.msg), "chunk": 4000 if inst.small else (48 if R.esize > 200 else 96)})
    acc.inst(name, menu=len(TA) + len(TB))
    if len(acc.samples) < 3:
        acc.sample({"inst": name, "flavour": flavour, "menu_size": [len(TA), len(TB)], "example_fault": [TA[5][0], TA[5][1]]})


_STRINGS = {}


def all_strings(maxlen, labelled3):
    key = (maxlen, labelled3)
    if key not in _STRINGS:
        out = []
        for n in range(0, maxlen + 1):
            for t in itertools.product(range(256), repeat=n):
                out.append(("string", bytes(t)))
        if labelled3 and maxlen < 3:
            for lab in b"ABS":
                for t in itertools.product(range(256), repeat=2):
                    out.append(("string", bytes((lab,) + t)))
        _STRINGS[key] = out
    return _STRINGS[key]


def add_strings_experiment(name, flavour, x, y, maxlen, labelled3, acc):
    inst, why = T.try_get(name)
    if inst is None:
        acc.degrade("%s unavailable: %s" % (name, why))
        return
    s1, s2 = ("A", "B") if flavour == "AB" else ("S", "S")
    pw, ids = b"pw", ((b"", b"") if flavour == "AB" else (b"",))
    sa, sb = rspec(name, s1, pw, ids, x), rspec(name, s2, pw, ids, y)
    rA, rB = mk_receiver(sa), mk_receiver(sb)
    if rA.msg[1:] == rB.msg[1:]:
        return
    S = all_strings(maxlen, labelled3)
    EXPERIMENTS.append({"kind": "strings", "name": name, "tag": flavour + "/all-strings", "r": (sa, sb), "T": (S, S),
                        "honest": (rB.msg, rA.msg), "chunk": 40000})
    acc.inst(name, strings_per_direction=len(S))


def run_experiments(acc):
    jobs = []
    for eid, exp in enumerate(EXPERIMENTS):
        for which in (0, 1):
            n = len(exp["T"][which])
            for lo in range(0, n, exp["chunk"]):
                jobs.append((eid, which, lo, min(n, lo + exp["chunk"])))
    # longest first
    jobs.sort(key=lambda j: -(j[3] - j[2]) * (1 if T.hint(EXPERIMENTS[j[0]]["name"]).small else 400 * T.hint(EXPERIMENTS[j[0]]["name"]).ref.esize // 32))
    res = core.pmap(_eval_job, jobs)
    keys = {}
    for eid, which, out, n in res:
        keys.setdefault((eid, which), []).extend(out)
        acc.n(evaluations=n, transitions=n)
    pairs = 0
    for eid, exp in enumerate(EXPERIMENTS):
        inst = T.get(exp["name"])
        F = fam(inst)
        refA, refB = mk_ref(exp["r"][0]), mk_ref(exp["r"][1])
        TA, TB = exp["T"]
        ka = {}
        for i, k in keys.get((eid, 0), []):
            ka.setdefault(k, []).append(i)
        accepted = [set(i for i, _ in keys.get((eid, w), [])) for w in (0, 1)]
        if exp["kind"] == "menu":
            for w, TT in ((0, TA), (1, TB)):
                for i, (kind, d) in enumerate(TT):
                    acc.seen((F, kind, i in accepted[w]))
        else:
            acc.seen((F, "all-strings", exp["tag"], len(accepted[0]), len(accepted[1])))
        for j, k in keys.get((eid, 1), []):
            for i in ka.get(k, []):
                (kind1, d1), (kind2, d2) = TA[i], TB[j]
                if (d1, d2) == exp["honest"]:
                    acc.n(honest_agreements=1)
                    continue
                r1, r2 = refA(d1), refB(d2)
                if r1 is not None and r1 == r2:
                    acc.degenerate["reference-protocol-agrees"] += 1
                    continue
                tail = "%s+%s" % (kind1, kind2) if exp["kind"] == "menu" else "strings"
                acc.violation("C02/%s/%s/tamper/%s" % (F, exp["tag"], tail),
                              {"what": "both ends return the same key although the deliveries are not the two unmodified messages (%s to first end, %s to second end)" % (kind1, kind2),
                               "replay": {"fn": "pair", "r1": rdesc(exp["r"][0]), "d1": d1, "r2": rdesc(exp["r"][1]), "d2": d2},
                               "expected": "raise or different keys", "observed": ["ok", k]})
        pairs += len(TA) * len(TB)
        acc.n(traces=1, states=len(TA) + len(TB))
    acc.extra["delivery_pairs_decided_by_join"] = pairs


def mk_ref(spec):
    name, side, pw, ids, x, restored, clone = spec
    inst = T.get(name)
    w = inst.ref.pw_scalar(pw)
    x = C.session_facts(inst, side, pw, ids, x)[0]

    def f(delivered):
        r = RS.finish(inst.rp, side, pw, w, ids, x, delivered)
        return r[1] if r[0] == "key" else None
    return f


def rdesc(spec):
    name, side, pw, ids, x, restored, clone = spec
    return {"inst": T.get(name).desc, "side": side, "pw": pw, "ids": list(ids), "x": x, "restored": restored, "clone": clone}


CONFIGS_AB = [(b"", b"", b""), (b"a", b"", b""), (b"b", b"", b""), (b"a\x00", b"", b""), (b"\x00a", b"", b""), (b"a" * 65, b"", b""),
              (b"a", b"x", b"y"), (b"a", b"y", b"x"), (b"a", b"x", b""), (b"a", b"", b"y"), (b"a", b"ab", b"c"), (b"a", b"a", b"bc"),
              (b"a", b"xy", b""), (b"a" * 64 + b"b", b"", b""),
              # a long password and the values a "pre-hash long passwords" shortcut would confuse it with
              (b"L" * 300, b"", b""), (__import__("hashlib").sha256(b"L" * 300).digest(), b"", b""),
              (__import__("hashlib").sha256(b"L" * 300).hexdigest().encode(), b"", b""), (b"L" * 256, b"", b""), (b"L" * 65, b"", b""),
              (__import__("hashlib").sha256(b"L" * 65).digest(), b"", b"")]
CONFIGS_S = [(b"", b""), (b"a", b""), (b"b", b""), (b"a\x00", b""), (b"\x00a", b""), (b"a" * 65, b""), (b"a", b"x"), (b"a", b"y"),
             (b"a", b"xy"), (b"a", b"x\x00"), (b"a", b"\x00x"), (b"a", b"X"), (b"A", b"x"), (b"a" * 64 + b"b", b""),
             (b"L" * 300, b""), (__import__("hashlib").sha256(b"L" * 300).digest(), b""),
             (__import__("hashlib").sha256(b"L" * 300).hexdigest().encode(), b""), (b"L" * 256, b""), (b"L" * 65, b""),
             (__import__("hashlib").sha256(b"L" * 65).digest(), b"")]


# identities / passwords that a text-, hex- or base64-based representation (for instance inside the serialized state) would confuse
IDC = [b"\xff", b"\xfe", b"\xef\xbf\xbd", b"?", b"1234", b"\x12\x34", b"12 34", b"MTIzNA==", b"cafe", b"\xca\xfe", b"CAFE", b"\xfb\xff", b"-_", b"+/",
       b"caf\xc3\xa9", b"caf\xe9", b"cafe\xcc\x81", b"a ", b" a", b"a\n"]
CONFUSABLE_AB = [(b"a", i, b"") for i in IDC] + [(b"a", b"", i) for i in IDC[:6]] + [(p_, b"", b"") for p_ in IDC]
CONFUSABLE_S = [(b"a", i) for i in IDC] + [(p_, b"") for p_ in IDC]


def _config_task(task):
    name, flavour, scalars = task[:3]
    which, restore_modes = (task[3], task[4]) if len(task) > 3 else ("base", [(False, False)])
    acc = Acc()
    inst, why = T.try_get(name)
    if inst is None:
        acc.degrade("%s unavailable: %s" % (name, why))
        return acc
    rp = inst.rp
    s1, s2 = ("A", "B") if flavour == "AB" else ("S", "S")
    menu = (CONFIGS_AB if flavour == "AB" else CONFIGS_S) if which == "base" else (CONFUSABLE_AB if flavour == "AB" else CONFUSABLE_S)
    if which == "confusable-ids":
        menu = [c for c in menu if c[0] == b"a"]
    F = fam(inst)
    clone = not inst.small
    for (x, y), (res1, res2) in itertools.product(scalars, restore_modes):
        RA = [Receiver(inst, s1, c[0], c[1:], x, restored=res1, clone=clone) for c in menu]
        RB = [Receiver(inst, s2, c[0], c[1:], y, restored=res2, clone=clone) for c in menu]
        for i, j in itertools.product(range(len(menu)), repeat=2):
            ra, rb = RA[i], RB[j]
            k1, k2 = ra.lib(rb.msg), rb.lib(ra.msg)
            acc.n(evaluations=2, transitions=2, states=1)
            if i == j:
                acc.n(honest_agreements=1 if k1 is not None and k1 == k2 else 0)
                continue
            diff = [n for n, (a, b) in zip(("pw", "idA", "idB") if flavour == "AB" else ("pw", "idS"), zip(menu[i], menu[j])) if a != b]
            agree = k1 is not None and k1 == k2
            acc.seen((F, "config", tuple(diff), agree))
            if not agree:
                continue
            r1, r2 = ra.ref(rb.msg), rb.ref(ra.msg)
            if r1 is not None and r1 == r2:
                acc.degenerate["reference-protocol-agrees"] += 1
                continue
            acc.violation("C02/%s/%s/config/%s%s" % (F, flavour, "+".join(diff), "/restored" if (res1 or res2) else ""),
                          {"what": "ends that differ in %s agree on a key%s" % ("+".join(diff), " (after serialize/from_serialized)" if (res1 or res2) else ""),
                           "replay": {"fn": "pair", "r1": ra.desc(), "d1": rb.msg, "r2": rb.desc(), "d2": ra.msg},
                           "expected": "raise or different keys", "observed": ["ok", k1]})
        acc.n(traces=1)
    acc.sample({"inst": name, "flavour": flavour, "config_pair": [list(menu[6]), list(menu[7])]})
    return acc


def param_variants(base):
    """same group, one element re-seeded / swapped"""
    s = base.rp.seeds
    out = [("M'", T.reseeded(base, M=T.alt_seed(base, s[0]))), ("N'", T.reseeded(base, N=T.alt_seed(base, s[1]))), ("S'", T.reseeded(base, S=T.alt_seed(base, s[2]))),
           ("M<->N", T.reseeded(base, M=s[1], N=s[0]))]
    return out


def _params_task(task):
    name, other, tier, vsel, flavour = task
    acc = Acc()
    base, why = T.try_get(name)
    if base is None:
        acc.degrade("%s unavailable: %s" % (name, why))
        return acc
    variants = []
    try:
        variants += param_variants(base)
    except Exception as e:
        acc.degrade("re-seeded variants of %s unavailable: %s" % (name, e))
    if other:
        o, why = T.try_get(other)
        if o is not None:
            variants.append(("group:" + other, o))
    variants = [v for i, v in enumerate(variants) if i == vsel]
    F = fam(base)
    q = base.q
    if base.small:
        wit = base.pw_witnesses()
        allp = list(itertools.product(range(q), repeat=2))
        some = [(x, y) for x in range(q) for y in (0, 1, q - 1)]
        if base.kind == "int" or q <= 7:
            plan = [(wit[w], allp) for w in sorted(wit)]
        else:
            plan = [(wit[w], allp if w in (0, 1, q // 2) else some) for w in sorted(wit)]
    else:
        plan = [(pw, [(3, 5), (0, 7), (q - 1, 2)]) for pw in (b"password", b"")]
    clone = not base.small
    for vname, var in variants:
        s1, s2 = ("A", "B") if flavour == "AB" else ("S", "S")
        ids = (b"", b"") if flavour == "AB" else (b"",)
        relevant = (flavour == "AB" and vname in ("M'", "N'", "M<->N")) or (flavour == "SS" and vname == "S'") or vname.startswith("group")
        for pw, scal in plan:
            for x, y in scal:
                for first, second in ((base, var), (var, base)):
                    try:
                        ra = Receiver(first, s1, pw, ids, x % first.q, clone=clone)
                        rb = Receiver(second, s2, pw, ids, y % second.q, clone=clone)
                    except Exception:
                        continue
                    k1, k2 = ra.lib(rb.msg), rb.lib(ra.msg)
                    acc.n(evaluations=2, transitions=2, states=1)
                    agree = k1 is not None and k1 == k2
                    acc.seen((F, "params", vname, flavour, agree))
                    if not agree:
                        continue
                    if not relevant:
                        # the differing element is not used by this flavour: same protocol, agreement is correct
                        acc.n(honest_agreements=1)
                        continue
                    r1, r2 = ra.ref(rb.msg), rb.ref(ra.msg)
                    if r1 is not None and r1 == r2:
                        acc.degenerate["reference-protocol-agrees(params)"] += 1
                        continue
                    acc.violation("C02/%s/%s/params/%s" % (F, flavour, vname),
                                  {"what": "ends whose parameter sets differ (%s) agree on a key" % vname,
                                   "replay": {"fn": "pair", "r1": ra.desc(), "d1": rb.msg, "r2": rb.desc(), "d2": ra.msg},
                                   "expected": "raise or different keys", "observed": ["ok", k1]})
        acc.n(traces=1)
    return acc


def run(tier, seed):
    acc = Acc()
    quick = tier == "quick"
    del EXPERIMENTS[:]
    # adversary menu with join
    for name in ["T23", "T29", "T509", "E37", "E109"] + T.SHIPPED + ([] if quick else ["T1543", "E229"]):
        inst, why = T.try_get(name)
        if inst is None:
            acc.degrade("%s unavailable: %s" % (name, why))
            continue
        q = inst.q
        pairs = [(3 % q, 5 % q)] if not inst.small else [(3 % q, 5 % q), (0, 1), (q - 1, 0)]
        lz = leading_zero_scalars(inst, b"pw") if (inst.kind == "int" and inst.ref.esize > 1) else {}
        if lz:
            acc.note("%s: extra base exchanges %s whose blinded elements start with a zero byte (strip-zero faults)" % (name, lz))
        for flavour in ("AB", "SS"):
            for (x, y) in pairs + ([lz[flavour]] if flavour in lz else []):
                for restored in ((False, True) if (inst.small or not quick or name == "ParamsEd25519") else (False,)):
                    add_menu_experiment(name, flavour, b"pw", x, y, restored, tier, acc)
    # every string
    for name in (["T23", "T29"] if quick else ["T11", "T23", "T29", "T31"]):
        inst, why = T.try_get(name)
        if inst is None:
            continue
        q = inst.q
        for flavour in ("AB", "SS"):
            if quick:
                add_strings_experiment(name, flavour, 3 % q, 5 % q, 2, True, acc)
            else:
                add_strings_experiment(name, flavour, 3 % q, 5 % q, 3 if name in ("T11", "T23") else 2, True, acc)
                add_strings_experiment(name, flavour, 0, 1, 2, True, acc)
    run_experiments(acc)
    tasks = []
    # configuration pairs
    for name in ["T23", "E109", "ParamsEd25519", "Params1024"] + ([] if quick else ["T29", "E37", "Params2048", "Params3072"]):
        inst, why = T.try_get(name)
        if inst is None:
            continue
        q = inst.q
        if inst.small:
            sc = [(x, y) for x in range(q) for y in range(q) if x != y]
            for ch in core.chunks(sc, 8):
                for flavour in ("AB", "SS"):
                    tasks.append(("config", (name, flavour, ch)))
            if name == "T23":
                for flavour in ("AB", "SS"):
                    for modes in ([(False, False)], [(True, True)], [(True, False)]):
                        tasks.append(("config", (name, flavour, [(3, 5), (0, 1)], "confusable", modes)))
        else:
            for flavour in ("AB", "SS"):
                tasks.append(("config", (name, flavour, [(3, 5)])))
                tasks.append(("config", (name, flavour, [(3, 5)], "confusable-ids", [(True, True)])))
    # parameter mismatches
    for name, other in [("T23", "T29"), ("T29", "T23"), ("E37", "E109"), ("E109", "ParamsEd25519"), ("ParamsEd25519", "E109"), ("Params1024", None)] + \
            ([] if quick else [("Params2048", None), ("Params3072", None), ("T11", "T31"), ("E53", "E37")]):
        for vsel in range(5 if other else 4):
            for flavour in ("AB", "SS"):
                tasks.append(("params", (name, other, tier, vsel, flavour)))
    weight = {"config": 1, "params": 2}
    tasks.sort(key=lambda t: -weight[t[0]] * (T.hint(t[1][0]).ref.esize if T.try_get(t[1][0])[0] else 1))
    core.pmerge(_dispatch, tasks, acc)
    return acc


def _dispatch(t):
    return {"config": _config_task, "params": _params_task}[t[0]](t[1])


def replay(rec):
    r = T.unjson(rec["replay"])

    def recv(d):
        inst = T.build_inst(d["inst"])
        return Receiver(inst, d["side"], d["pw"], tuple(d["ids"]), d["x"], d.get("restored", False), d.get("clone", False))

    k1 = recv(r["r1"]).lib(r["d1"])
    k2 = recv(r["r2"]).lib(r["d2"])
    if k1 is not None and k1 == k2:
        return ["ok", k1]
    return ["differ-or-raise", k1, k2]


_eval_job.returns_tuple = True
