"""C10 - the persisted state format is stable across library versions.

Direction 1: state written by an INDEPENDENT encoder of the released format (every key
order, four whitespace styles) must restore and finish per specification.  Direction 2:
state written by the tree must parse per the released format (exact key set, lower-case hex,
scalar width/endianness, fingerprint recipe).  Frozen literal blobs for the shipped sets."""
import itertools, json
from .. import target as T, core
from ..core import Acc
from ..ref import spake2 as RS, statefmt, golden
from . import common as C

LEVEL = "model_checking"
RULE = ("small groups: every session (class, password scalar w, scalar x, ids of a 4-menu): (1) reference-encoded state -> from_serialized -> "
        "finish(2 inbound messages) = reference keys, the (key order, whitespace style) pair rotating through all 120/720 orders x 4 styles, "
        "and the complete orders x styles product for 2 sessions per class and instance; (2) serialize() output parsed by the reference "
        "decoder: exact key set, lower-case hex, fixed scalar width and endianness, hashed_params = reference recipe, fields equal. shipped "
        "sets: edge classes + frozen literal state blobs. states = distinct (session, encoding variant); transitions = from_serialized / "
        "finish / serialize calls compared. distinct_nontrivial = distinct (instance family, class, key order, style) variants accepted")
ASSUMPTIONS = ["mc/ref/statefmt.py is the released format (cross-checked with the pinned tree's output when golden.json was generated)"]
EXHAUSTIVE = True


def bounds(tier):
    return {"small": ["T11", "T23", "T29", "E37"] if tier == "quick" else ["T11", "T23", "T29", "T31", "T43", "T59", "T509", "T1543", "E37", "E53", "E109"],
            "key_orders": "all (120 for Symmetric, 720 for A/B)", "styles": statefmt.STYLES}


def fam(inst):
    return inst.kind if inst.small else inst.name.split("+")[0]


def check_restore(inst, side, pw, ids, x, order, style, acc, inbounds=None):
    R, rp = inst.ref, inst.rp
    F = fam(inst)
    w = R.pw_scalar(pw)
    sd = statefmt.state_dict(rp, side, pw, ids, x)
    blob = statefmt.dumps(sd, order, style)
    desc = {"inst": inst.desc, "side": side, "blob": blob, "pw": pw, "ids": list(ids), "x": x}
    if inbounds is None:
        inbounds = [d for k, d in C.inbound_menu(inst, side, w, x)[:1]] + [C.PEER[side].encode() + R.enc(R.base())]
    ok = True
    for d in inbounds:
        r = T.observe(inst.restore, side, blob)
        acc.n(transitions=1)
        if r[0] != "ok":
            acc.violation("C10/%s/%s/released-state-refused" % (F, side),
                          {"what": "from_serialized() refuses a state object in the released format (key order %s, style %s)" % (list(order), style),
                           "replay": desc, "expected": "instance", "observed": r})
            return False
        exp = RS.finish(rp, side, pw, w, ids, x, d)
        got = T.observe(r[1].finish, d)
        acc.n(transitions=1)
        if exp[0] == "key":
            if got != ("ok", exp[1]):
                ok = False
                acc.violation("C10/%s/%s/released-state-resumes-other-session" % (F, side),
                              {"what": "state in the released format does not resume the session it describes (finish key differs)",
                               "replay": dict(desc, delivered=d), "expected": exp[1], "observed": got})
        elif got[0] == "ok":
            ok = False
            acc.violation("C10/%s/%s/released-state-resumes-other-session" % (F, side),
                          {"what": "restored session accepts a message the described session refuses (%s)" % exp[1],
                           "replay": dict(desc, delivered=d), "expected": "raises", "observed": got})
    return ok


def check_output(inst, side, pw, ids, x, acc):
    R, rp = inst.ref, inst.rp
    F = fam(inst)
    s = inst.new(side, pw, ids, x)
    m = T.observe(s.start)
    blob = T.observe(s.serialize)
    acc.n(transitions=2)
    desc = {"inst": inst.desc, "side": side, "pw": pw, "ids": list(ids), "x": x}
    if m[0] != "ok" or blob[0] != "ok" or not isinstance(blob[1], bytes):
        acc.violation("C10/%s/%s/serialize-fails" % (F, side), {"what": "start()/serialize() does not produce state bytes",
                      "replay": desc, "expected": "bytes", "observed": [m, blob]})
        return
    fields, problems = statefmt.parse(blob[1], R, side)
    # the scalar field must be the fixed-width encoding of the scalar of THIS session: tie it to the message actually sent
    # (which scalar the sampler drew is C11's subject)
    if fields is not None and fields.get("x") is not None:
        if fields["x"] != x:
            x = fields["x"]
        if RS.message(rp, side, R.pw_scalar(pw), x) != m[1]:
            problems.append("xy_scalar does not describe the session: side|encode(x*G + w*M) for the stored scalar is not the message that start() returned")
    want = statefmt.state_dict(rp, side, pw, ids, x)
    if fields is not None and not problems:
        got = json.loads(blob[1].decode("ascii"))
        for k in sorted(want):
            if got.get(k) != want[k]:
                problems.append("%s = %r, released format has %r" % (k, got.get(k), want[k]))
    if fields is not None:
        try:
            extra = sorted(set(json.loads(blob[1].decode("ascii"))) - set(want))
        except Exception:
            extra = []
        if extra:
            acc.note("serialize() emits additional keys %s (allowed: the released fields are all present and unchanged)" % extra)
    for p in problems[:3]:
        key = p.split(" ")[0] if p.split(" ")[0] in want else p.split(":")[0][:30]
        acc.violation("C10/%s/%s/output-format/%s" % (F, side, key.replace(" ", "-")),
                      {"what": "serialize() output is not in the released format: " + p, "replay": desc,
                       "expected": json.dumps(want, sort_keys=True), "observed": blob})


def _sessions_task(task):
    name, side, ws = task
    acc = Acc()
    inst, why = T.try_get(name)
    if inst is None:
        acc.degrade("%s unavailable: %s" % (name, why))
        return acc
    q = inst.q
    wit = inst.pw_witnesses()
    n_ids = 4
    keys = list(statefmt.state_dict(inst.rp, side, b"", C.ids_for(side, 0), 0))
    orders = list(itertools.permutations(keys))
    i = 0
    for w in ws:
        pw = wit[w]
        for x in range(q):
            for k in range(n_ids):
                ids = C.ids_for(side, k)
                j = (w * q * n_ids + x * n_ids + k)
                order = orders[(j * 7 + 3) % len(orders)]
                style = statefmt.STYLES[j % 4]
                if check_restore(inst, side, pw, ids, x, order, style, acc):
                    acc.seen((fam(inst), side, order, style))
                check_output(inst, side, pw, ids, x, acc)
                acc.n(states=1, traces=1)
                i += 1
    acc.inst(name, sessions=i)
    acc.sample({"inst": name, "side": side, "state": statefmt.dumps(statefmt.state_dict(inst.rp, side, wit[ws[-1]], C.ids_for(side, 1), q - 1), orders[5], "padded")})
    return acc


def _orders_task(task):
    name, side, sess, lo, hi = task
    acc = Acc()
    inst, why = T.try_get(name)
    if inst is None:
        return acc
    pw, k, x = sess
    ids = C.ids_for(side, k)
    x %= inst.q
    keys = list(statefmt.state_dict(inst.rp, side, pw, ids, x))
    orders = list(itertools.permutations(keys))[lo:hi]
    inb = None
    if not inst.small:
        w = inst.ref.pw_scalar(pw)
        inb = [C.inbound_menu(inst, side, w, x)[0][1]]
        if side == "B":
            orders = orders[::6]
    for oi, order in enumerate(orders):
        for style in (statefmt.STYLES if inst.small or side == "S" else [statefmt.STYLES[(lo + oi) % 4]]):
            if check_restore(inst, side, pw, ids, x, order, style, acc, inb):
                acc.seen((fam(inst), side, order, style))
            acc.n(states=1, traces=1)
    return acc


def _mixed_task(task):
    """both role families on ONE parameter object in one process, in both orders"""
    name, = task
    acc = Acc()
    inst, why = T.try_get(name)
    if inst is None:
        return acc
    j = 0
    for order in ("ASB", "SAB", "BSA"):
        for pw in (b"pw", b""):
            for side in order:
                x = (3 + j) % inst.q
                ids = C.ids_for(side, j)
                keys = list(statefmt.state_dict(inst.rp, side, pw, ids, x))
                inb = None if inst.small else [C.inbound_menu(inst, side, inst.ref.pw_scalar(pw), x)[0][1]]
                check_output(inst, side, pw, ids, x, acc)
                if check_restore(inst, side, pw, ids, x, keys[::-1], statefmt.STYLES[j % 4], acc, inb):
                    acc.seen((fam(inst), side, "mixed", order))
                acc.n(states=1, traces=1)
                j += 1
    return acc


def _shipped_task(task):
    name, side, seed = task
    acc = Acc()
    try:
        base = T.get(name)
        q = base.q
        inst = T.wrapped(base, pw_map={b"\x00w0": 0, b"\x00wq": q - 1}, name=name + "+w")
    except Exception as e:
        acc.degrade("%s unavailable: %s: %s" % (name, type(e).__name__, e))
        return acc
    xs = C.edge_scalars(q, seed, 1)[:5]
    keys = list(statefmt.state_dict(inst.rp, side, b"", C.ids_for(side, 0), 0))
    pat = [x for x in C.pattern_scalars(q, 0) if x not in xs]
    orders = list(itertools.permutations(keys))
    j = 0
    for pw in (b"password", b"\x00w0", b"", b"\xc3\xa9" * 40):
        for x in xs:
            ids = C.ids_for(side, j)
            inb = [C.inbound_menu(inst, side, inst.ref.pw_scalar(pw), x)[0][1]]
            if check_restore(inst, side, pw, ids, x, orders[(j * 37 + 11) % len(orders)], statefmt.STYLES[j % 4], acc, inb):
                acc.seen((name, side, j % 4))
            check_output(inst, side, pw, ids, x, acc)
            acc.n(states=1, traces=1)
            j += 1
    # scalars with a distinguished byte at the boundary positions / every 8th bit length, in the stored state
    for x in pat[("ABS".index(side))::3]:
        ids = C.ids_for(side, j)
        inb = [C.inbound_menu(inst, side, inst.ref.pw_scalar(b"pw"), x)[0][1]]
        if check_restore(inst, side, b"pw", ids, x, orders[(j * 37 + 11) % len(orders)], statefmt.STYLES[j % 4], acc, inb):
            acc.seen((name, side, "pattern", j % 4))
        check_output(inst, side, b"pw", ids, x, acc)
        acc.n(states=1, traces=1)
        j += 1
    acc.inst(name, sessions=j)
    return acc


def _big_task(task):
    """large state objects: long passwords / identities (certificates used as identities) and heavy whitespace"""
    name, side = task
    acc = Acc()
    inst, why = T.try_get(name)
    if inst is None:
        return acc
    j = 0
    for pw, idlen, pad in ((b"P" * 2000, 0, 0), (b"pw", 450, 0), (b"pw", 3, 5000), (b"Q" * 5000, 2000, 100)):
        x = (3 + j) % inst.q
        ids = (b"I" * idlen,) if side == "S" else (b"I" * idlen, b"J" * idlen)
        sd = statefmt.state_dict(inst.rp, side, pw, ids, x)
        keys = list(sd)
        blob = statefmt.dumps(sd, keys[::-1], "indented")
        if pad:
            blob = b" " * pad + blob + b"\n" * pad
        w = inst.ref.pw_scalar(pw)
        d = C.inbound_menu(inst, side, w, x)[0][1]
        desc = {"inst": inst.desc, "side": side, "blob": blob, "pw": pw, "ids": list(ids), "x": x}
        r = T.observe(inst.restore, side, blob)
        acc.n(states=1, transitions=2, traces=1)
        if r[0] != "ok":
            acc.violation("C10/%s/%s/released-state-refused" % (fam(inst), side),
                          {"what": "from_serialized() refuses a large (%d bytes) state object in the released format" % len(blob),
                           "replay": desc, "expected": "instance", "observed": r})
        else:
            exp = RS.finish(inst.rp, side, pw, w, ids, x, d)
            got = T.observe(r[1].finish, d)
            if exp[0] == "key" and got != ("ok", exp[1]):
                acc.violation("C10/%s/%s/released-state-resumes-other-session" % (fam(inst), side),
                              {"what": "large state object does not resume the session it describes", "replay": dict(desc, delivered=d),
                               "expected": exp[1], "observed": got})
            else:
                acc.seen((fam(inst), side, "big", len(blob) // 1000))
        check_output(inst, side, pw, ids, x, acc)
        j += 1
    return acc


def _golden(acc):
    for v in golden.load()["vectors"]:
        inst, why = T.try_get(v["set"])
        if inst is None:
            acc.degrade("%s unavailable: %s" % (v["set"], why))
            continue
        side = v["side"]
        blob = v["state"].encode("ascii")
        inbound, key = bytes.fromhex(v["inbound"]), bytes.fromhex(v["key"])
        got = T.observe(lambda: inst.restore(side, blob).finish(inbound))
        acc.n(states=1, transitions=2, traces=1)
        if got != ("ok", key):
            acc.violation("C10/%s/%s/frozen-blob" % (v["set"], side), {"what": "literal state blob written by the pinned release does not resume to its key",
                          "replay": {"inst": inst.desc, "side": side, "blob": blob, "delivered": inbound}, "expected": key, "observed": got})
        # and the tree writes the same object for the same session
        pw, ids, x = bytes.fromhex(v["pw"]), tuple(bytes.fromhex(i) for i in v["ids"]), int(v["x"])
        s = inst.new(side, pw, ids, x)
        if T.observe(s.start)[0] == "ok":
            out = T.observe(s.serialize)
            acc.n(transitions=1)
            try:
                same = out[0] == "ok" and json.loads(out[1].decode("ascii")) == json.loads(v["state"])
            except Exception:
                same = False
            if not same:
                acc.violation("C10/%s/%s/frozen-blob-output" % (v["set"], side), {"what": "serialize() differs from the literal state blob of the pinned release for the same session",
                              "replay": {"inst": inst.desc, "side": side, "pw": pw, "ids": list(ids), "x": x}, "expected": v["state"], "observed": out})
        acc.seen(("golden", v["set"], side))


def run(tier, seed):
    acc = Acc()
    quick = tier == "quick"
    tasks = []
    for name in bounds(tier)["small"]:
        inst, why = T.try_get(name)
        if inst is None:
            acc.degrade("%s unavailable: %s" % (name, why))
            continue
        ws = list(range(inst.q)) if inst.q <= 30 else [0, 1, 2, inst.q // 2, inst.q - 1]
        for side in "ABS":
            for ch in core.chunks(ws, 4 if inst.kind == "int" else len(ws)):
                tasks.append(("sessions", (name, side, ch)))
    for name in (["T23", "E37", "ParamsEd25519"] if quick else ["T23", "T29", "E37", "E109", "ParamsEd25519", "Params1024"]):
        inst, why = T.try_get(name)
        if inst is None:
            continue
        for side in "ABS":
            n = 120 if side == "S" else 720
            sessions = [(b"pw", 1, 3), (b"\x00\xff", 5, 0)] if inst.small else [(b"pw", 1, 3)]
            step = 60 if inst.small else 15
            for sess in sessions:
                for lo in range(0, n, step):
                    tasks.append(("orders", (name, side, sess, lo, lo + step)))
    for name in T.SHIPPED:
        for side in "ABS":
            tasks.append(("shipped", (name, side, seed)))
    for name in ["T23", "E37"] + T.SHIPPED:
        tasks.append(("mixed", (name,)))
    for name in ["T23", "ParamsEd25519"] + ([] if quick else ["Params1024", "E37"]):
        for side in "ABS":
            tasks.append(("big", (name, side)))
    tasks.sort(key=lambda t: -{"sessions": 1, "orders": 3, "shipped": 50, "mixed": 40, "big": 10}[t[0]] * T.hint(t[1][0]).ref.esize)
    core.pmerge(_dispatch, tasks, acc)
    _golden(acc)
    return acc


def _dispatch(t):
    return {"sessions": _sessions_task, "orders": _orders_task, "shipped": _shipped_task, "mixed": _mixed_task, "big": _big_task}[t[0]](t[1])


def replay(rec):
    r = T.unjson(rec["replay"])
    inst = T.build_inst(r["inst"])
    side = r["side"]
    if "blob" in r:
        got = T.observe(inst.restore, side, r["blob"])
        if got[0] != "ok" or "delivered" not in r:
            return got if got[0] != "ok" else ("ok", "instance")
        return T.observe(got[1].finish, r["delivered"])
    s = inst.new(side, r["pw"], tuple(r["ids"]), r["x"])
    m = T.observe(s.start)
    return T.observe(s.serialize)
