"""Accumulator shared by all checks, deterministic process-parallel map, deadlines."""
import os, time, collections, multiprocessing, hashlib, json

from .target import jsonable

NPROC = int(os.environ.get("VERIF_PROCS", "16"))


class Acc:
    """plain-data result of (part of) a check; picklable, mergeable"""

    def __init__(self):
        self.c = collections.Counter()      # states / transitions / traces / evaluations ...
        self.viol = {}                      # key -> {"count": n, "records": [first few]}
        self.samples = []
        self.notes = []
        self.distinct = set()               # distinct non-trivial outcome classes (small hashables)
        self.degraded = []
        self.degenerate = collections.Counter()
        self.caps = []
        self.per = {}                       # per-instance breakdown
        self.extra = {}

    def n(self, **kw):
        for k, v in kw.items():
            self.c[k] += v

    def inst(self, name, **kw):
        d = self.per.setdefault(name, collections.Counter())
        for k, v in kw.items():
            d[k] += v

    def violation(self, key, record):
        v = self.viol.setdefault(key, {"count": 0, "records": []})
        v["count"] += 1
        if len(v["records"]) < 2:
            v["records"].append(jsonable(record))

    def tag_env(self, env):
        """mark every violation of this accumulator as found under the process-wide setting `env` (key suffix + replay field)"""
        out = {}
        for k, v in self.viol.items():
            for r in v["records"]:
                if isinstance(r.get("replay"), dict):
                    r["replay"]["env"] = env
                r["what"] = "[%s] %s" % (env, r.get("what", ""))
            out[k + "/" + env] = v
        self.viol = out
        return self

    def sample(self, x, limit=4):
        if len(self.samples) < limit:
            self.samples.append(jsonable(x))

    def note(self, s):
        if s not in self.notes and len(self.notes) < 50:
            self.notes.append(s)

    def degrade(self, reason):
        if reason not in self.degraded:
            self.degraded.append(reason)

    def cap(self, what):
        if what not in self.caps:
            self.caps.append(what)

    def seen(self, x):
        self.distinct.add(x)

    def merge(self, o):
        self.c.update(o.c)
        for k, v in o.viol.items():
            mine = self.viol.setdefault(k, {"count": 0, "records": []})
            mine["count"] += v["count"]
            for r in v["records"]:
                if len(mine["records"]) < 2:
                    mine["records"].append(r)
        for s in o.samples:
            if len(self.samples) < 6:
                self.samples.append(s)
        for s in o.notes:
            self.note(s)
        self.distinct |= o.distinct
        for d in o.degraded:
            self.degrade(d)
        self.degenerate.update(o.degenerate)
        for c in o.caps:
            self.cap(c)
        for k, v in o.per.items():
            self.per.setdefault(k, collections.Counter()).update(v)
        for k, v in o.extra.items():
            if k not in self.extra:
                self.extra[k] = v
            elif isinstance(v, (int, float)) and isinstance(self.extra[k], (int, float)):
                self.extra[k] += v
            elif isinstance(v, list):
                self.extra[k] = (self.extra[k] + v)[:50]
            elif isinstance(v, dict):
                self.extra[k].update(v)
        return self


_DEADLINE = [None]


def _now():
    from . import target
    return target.clock.real()


def set_deadline(seconds):
    _DEADLINE[0] = _now() + seconds


def out_of_time():
    return _DEADLINE[0] is not None and _now() > _DEADLINE[0]


def h8(*parts):
    """short stable hash for distinct-outcome bookkeeping"""
    m = hashlib.blake2b(digest_size=8)
    for p in parts:
        m.update(p if isinstance(p, bytes) else repr(p).encode())
        m.update(b"|")
    return m.digest()


def _die_with_parent():
    """workers must not outlive a killed parent (they would keep pipes open and burn CPU)"""
    try:
        import ctypes, signal
        ctypes.CDLL("libc.so.6", use_errno=True).prctl(1, signal.SIGKILL)   # PR_SET_PDEATHSIG
    except Exception:
        pass


def _call(args):
    fn, task = args
    try:
        return fn(task)
    except Exception as e:
        from .target import HarnessError
        if isinstance(e, HarnessError) and not getattr(fn, "returns_tuple", False):
            a = Acc()
            a.degrade("task %s%r skipped: %s" % (fn.__name__, (task if len(repr(task)) < 80 else "..."), e))
            return a
        raise


def pmap(fn, tasks, procs=None):
    """deterministic parallel map over a task list with fork()ed workers (the library and all
    instances built so far are inherited).  Results come back in task order."""
    tasks = list(tasks)
    procs = min(procs or NPROC, len(tasks)) or 1
    if procs <= 1 or os.environ.get("VERIF_SERIAL"):
        return [_call((fn, t)) for t in tasks]
    ctx = multiprocessing.get_context("fork")
    with ctx.Pool(procs, initializer=_die_with_parent) as pool:
        return pool.map(_call, [(fn, t) for t in tasks], chunksize=1)


def pmerge(fn, tasks, acc=None, procs=None):
    acc = acc or Acc()
    for r in pmap(fn, tasks, procs):
        acc.merge(r)
    return acc


def chunks(seq, n):
    seq = list(seq)
    k = max(1, (len(seq) + n - 1) // n)
    return [seq[i:i + k] for i in range(0, len(seq), k)]
