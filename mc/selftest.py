"""setup_cmd: nothing to build (pure Python on /venv/bin/python); self-test the oracles."""
import sys
from .ref import hkdf, numth, edwards, golden


_FAKE = '''
L1 = None
L2 = None
count = [0]
def inc():
    with L1:
        v = count[0]
        v = v + 1
        count[0] = v
    return v
def racy():
    v = count[0]
    v = v + 1
    count[0] = v
    return v
def ab():
    with L1:
        with L2:
            return 1
def ba():
    with L2:
        with L1:
            return 1
'''


def sched_selftest():
    """the thread-schedule explorer on a 20-line fake library: finds the lost update of an unlocked counter, finds none under a
    (cooperative) lock, and reports a lock-order inversion as a deadlock outcome instead of hanging"""
    import tempfile, os, importlib.util
    from . import sched
    with tempfile.TemporaryDirectory() as d:
        path = os.path.join(d, "fakelib.py")
        open(path, "w").write(_FAKE)

        def load():
            spec = importlib.util.spec_from_file_location("fakelib", path)
            m = importlib.util.module_from_spec(spec)
            spec.loader.exec_module(m)
            m.L1, m.L2 = sched.CoopLock(), sched.CoopLock()
            return m
        out = {}
        for name, pick in (("inc", lambda m: [m.inc, m.inc]), ("racy", lambda m: [m.racy, m.racy]), ("abba", lambda m: [m.ab, m.ba])):
            seen = set()
            n = sched.explore(lambda: pick(load()), 2, d, lambda res, run: seen.add(tuple(r[1] for r in res)))
            out[name] = (n, seen)
        assert out["inc"][1] == {(1, 2), (2, 1)}, out["inc"]
        assert (1, 1) in out["racy"][1], out["racy"]
        assert ("Deadlock", "Deadlock") in out["abba"][1] and (1, 1) in out["abba"][1], out["abba"]
    return True


def main():
    assert hkdf.selftest() and numth.selftest() and edwards.selftest()
    g = golden.load()
    assert len(g["vectors"]) == 24
    assert sched_selftest()
    print("mc selftest ok")
    return 0


if __name__ == "__main__":
    sys.exit(main())
