"""setup_cmd: nothing to build (pure Python on /venv/bin/python); self-test the oracles."""
import sys
from .ref import hkdf, numth, edwards, golden


def main():
    assert hkdf.selftest() and numth.selftest() and edwards.selftest()
    g = golden.load()
    assert len(g["vectors"]) == 24
    print("mc selftest ok")
    return 0


if __name__ == "__main__":
    sys.exit(main())
