"""Binding to the code under test.

* loads python-spake2 from $VERIF_REPO/src (default /repo/src), by path, fresh;
* small-instance factories: IntegerGroup(p,q,g) toys and toy twisted-Edwards curves
  (a second copy of the library's own ed25519_basic.py / ed25519_group.py with the
  module globals Q, L, d, I, B, Base, Zero, _zero_bytes replaced);
* wrapper group (duck-typed, public `_Params(group)` API) that forces password scalars
  and known-dlog M/N/S on the shipped groups;
* scripted entropy with a ledger; observe() = ("ok", value) | ("exc", TypeName).
"""
import os, sys, importlib, importlib.util, types, json

from .ref.intgroup import RefIntGroup, Degenerate
from .ref.edwards import RefEdwards, TOY_CURVES, Q25519, L25519, D25519
from .ref.spake2 import RefParams
from .ref import numth

REPO = os.path.realpath(os.environ.get("VERIF_REPO", "/repo"))
SRC = os.path.join(REPO, "src")
PKG = os.path.join(SRC, "spake2")


class HarnessError(Exception):
    """something the harness needs is missing - never a property violation"""


class VirtualClock:
    """the clock seam: time.time / monotonic / perf_counter (and the _ns variants) are replaced, before the library is imported,
    by functions that add an offset the harness controls.  Offset 0 = real time.  Harnesses call advance() between API calls so
    that 'an hour passes' between start() and finish() - anything that expires by wall-clock time becomes visible."""

    def __init__(self):
        self.offset = 0.0
        self.installed = False

    def install(self):
        if self.installed:
            return
        import time as _t
        self._orig = {n: getattr(_t, n) for n in ("time", "monotonic", "perf_counter", "time_ns", "monotonic_ns", "perf_counter_ns") if hasattr(_t, n)}
        clock = self

        def mk(name):
            f = clock._orig[name]
            if name.endswith("_ns"):
                return lambda: f() + int(clock.offset * 1e9)
            return lambda: f() + clock.offset
        for n in self._orig:
            setattr(_t, n, mk(n))
        self.installed = True

    def advance(self, seconds=3600.0):
        self.offset += seconds

    def real(self):
        """the real wall clock (for the harness's own timing)"""
        import time as _t
        return self._orig["time"]() if self.installed else _t.time()


clock = VirtualClock()


class _Lib:
    pass


_LIB = None


def lib():
    """import the library under test from SRC (once per process)"""
    global _LIB
    if _LIB is not None:
        return _LIB
    clock.install()
    for k in [k for k in sys.modules if k == "spake2" or k.startswith("spake2.")]:
        del sys.modules[k]
    if SRC in sys.path:
        sys.path.remove(SRC)
    sys.path.insert(0, SRC)
    import spake2
    here = os.path.realpath(spake2.__file__)
    if not here.startswith(SRC + os.sep):
        raise HarnessError("spake2 imported from %s, wanted %s" % (here, SRC))
    _cooperative_locks("spake2")
    L = _Lib()
    L.pkg = spake2
    L.sp = importlib.import_module("spake2.spake2")
    L.groups = importlib.import_module("spake2.groups")
    L.params = importlib.import_module("spake2.params")
    L.util = importlib.import_module("spake2.util")
    L.eb = importlib.import_module("spake2.ed25519_basic")
    L.eg = importlib.import_module("spake2.ed25519_group")
    L.pall = importlib.import_module("spake2.parameters.all")
    L.A, L.B, L.S = L.sp.SPAKE2_A, L.sp.SPAKE2_B, L.sp.SPAKE2_Symmetric
    L.cls = {"A": L.A, "B": L.B, "S": L.S}
    _LIB = L
    return L


def _cooperative_locks(prefix):
    """replace every lock object reachable from the globals / class attributes of the library's modules, and the lock factories
    those modules see, by the scheduler's cooperative locks (see sched.CoopLock)"""
    import threading, _thread
    from . import sched
    kinds = {type(threading.Lock()): sched.CoopLock, type(threading.RLock()): sched.CoopRLock}
    fact = {threading.Lock: sched.CoopLock, threading.RLock: sched.CoopRLock, _thread.allocate_lock: sched.CoopLock}

    def _proxy(real, **over):
        class _P(types.ModuleType):
            def __getattr__(self, k):
                return getattr(real, k)
        p = _P(real.__name__)
        for k, v in over.items():
            setattr(p, k, v)
        return p
    proxies = {id(threading): _proxy(threading, Lock=sched.CoopLock, RLock=sched.CoopRLock),
               id(_thread): _proxy(_thread, allocate_lock=sched.CoopLock, RLock=sched.CoopRLock)}

    def fix(ns, setter, depth=0):
        for k, v in list(ns.items()):
            if type(v) in kinds:
                setter(k, kinds[type(v)]())
            elif id(v) in proxies and isinstance(v, types.ModuleType):
                setter(k, proxies[id(v)])
            elif callable(v) and any(v is f for f in fact):
                setter(k, [c for f, c in fact.items() if v is f][0])
            elif depth == 0 and type(v).__module__.split(".")[0] == prefix.split(".")[0] and hasattr(v, "__dict__") and not isinstance(v, type):
                fix(v.__dict__, lambda kk, vv, v=v: setattr(v, kk, vv), 1)
    for name, m in list(sys.modules.items()):
        if m is None or not (name == prefix or name.startswith(prefix + ".")):
            continue
        fix(m.__dict__, lambda k, v, m=m: setattr(m, k, v))
        for c in list(m.__dict__.values()):
            if isinstance(c, type) and getattr(c, "__module__", None) == name:
                fix(dict(c.__dict__), lambda k, v, c=c: setattr(c, k, v))


class debug_logging:
    """process-wide setting: the logging module switched to DEBUG on the root logger (so that every library logger is enabled for
    DEBUG), with a handler that formats each record into a throw-away buffer (lazy %-arguments are evaluated, as a real handler would)"""

    def __enter__(self):
        import logging, io
        self.root = logging.getLogger()
        self.level = self.root.level
        self.disabled = logging.root.manager.disable
        self.h = logging.StreamHandler(io.StringIO())
        self.h.setLevel(logging.DEBUG)
        self.root.addHandler(self.h)
        self.root.setLevel(logging.DEBUG)
        logging.disable(logging.NOTSET)
        self.touched = []
        for name, lg in list(logging.root.manager.loggerDict.items()):
            if isinstance(lg, logging.Logger) and (name == "spake2" or name.startswith("spake2")):
                self.touched.append((lg, lg.level, lg.disabled))
                lg.setLevel(logging.NOTSET)
                lg.disabled = False
        return self

    def __exit__(self, *a):
        import logging
        self.root.removeHandler(self.h)
        self.root.setLevel(self.level)
        logging.disable(self.disabled)
        for lg, lvl, dis in self.touched:
            lg.setLevel(lvl)
            lg.disabled = dis
        return False


_FRESH = []


def fresh_lib():
    """a NEW import of the whole library (own module objects, own module-level state) from the same source files, so that an
    execution can make the first use of the library 'in the process' again and again; earlier fresh copies are dropped"""
    lib()
    while _FRESH:
        old = _FRESH.pop()
        for k in [k for k in sys.modules if k == old or k.startswith(old + ".")]:
            del sys.modules[k]
    name = "spake2_fresh_%d" % (fresh_lib.n,)
    fresh_lib.n += 1
    spec = importlib.util.spec_from_file_location(name, os.path.join(PKG, "__init__.py"), submodule_search_locations=[PKG])
    m = importlib.util.module_from_spec(spec)
    sys.modules[name] = m
    spec.loader.exec_module(m)
    _FRESH.append(name)
    _cooperative_locks(name)
    L = _Lib()
    L.pkg = m
    L.sp = importlib.import_module(name + ".spake2")
    L.A, L.B, L.S = L.sp.SPAKE2_A, L.sp.SPAKE2_B, L.sp.SPAKE2_Symmetric
    L.cls = {"A": L.A, "B": L.B, "S": L.S}
    return L


fresh_lib.n = 0


# ---------------------------------------------------------------------------
# observation

def observe(f, *a, **kw):
    try:
        return ("ok", f(*a, **kw))
    except HarnessError:
        raise
    except EntropyExhausted:
        return ("exc", "EntropyExhausted")
    except Exception as e:
        return ("exc", type(e).__name__)


def jsonable(x):
    if isinstance(x, (bytes, bytearray)):
        return {"hex": bytes(x).hex()}
    if isinstance(x, (list, tuple)):
        return [jsonable(i) for i in x]
    if isinstance(x, dict):
        return {str(k): jsonable(v) for k, v in x.items()}
    if isinstance(x, (set, frozenset)):
        return sorted(jsonable(i) for i in x)
    if isinstance(x, int) and not isinstance(x, bool) and abs(x) > 2**53:
        return {"int": str(x)}
    if isinstance(x, (int, float, str, bool)) or x is None:
        return x
    return repr(x)


def unjson(x):
    if isinstance(x, dict):
        if set(x) == {"hex"}:
            return bytes.fromhex(x["hex"])
        if set(x) == {"int"}:
            return int(x["int"])
        return {k: unjson(v) for k, v in x.items()}
    if isinstance(x, list):
        return [unjson(i) for i in x]
    return x


# ---------------------------------------------------------------------------
# scripted entropy

class EntropyExhausted(Exception):
    pass


class Script:
    """entropy_f whose every answer is decided by the harness; keeps a ledger of requests.
    answers: list of bytes (exact answers) or ints (encoded big-endian at the requested
    width).  An entropy function must return exactly the number of bytes asked for: when the
    library asks for a width other than the scripted answer's, the answer keeps its VALUE
    (low-order bytes / zero-extended) and the mismatch is counted in `resized` (C11, which
    owns the request sizes, reads the ledger)."""

    def __init__(self, answers, cap=64):
        self.answers = list(answers)
        self.calls = []
        self.cap = cap
        self.resized = 0

    def __call__(self, n):
        i = len(self.calls)
        self.calls.append(n)
        if i >= len(self.answers) or i >= self.cap:
            raise EntropyExhausted("entropy request #%d (%d bytes) beyond the script" % (i, n))
        a = self.answers[i]
        if isinstance(a, int):
            a = (a % (1 << (8 * n))).to_bytes(n, "big")
        elif len(a) != n and isinstance(n, int) and n >= 0:
            self.resized += 1
            a = a[len(a) - n:] if len(a) > n else b"\x00" * (n - len(a)) + a
        return a


def forbid_entropy(n):
    raise EntropyExhausted("entropy requested where none may be drawn")


# ---------------------------------------------------------------------------
# calling-convention seam: HOW the application calls the library is part of the environment the harness owns.  A style never
# changes a VALUE handed to the library, only its carrier (a subclass of the public class, a bytes-like buffer instead of bytes,
# keyword instead of positional password).  Oracles under a buffer style are relaxed in the one sound direction: the library
# may REFUSE a bytes-like carrier with any exception, it may not compute something else from it (`style_accepts`).

STYLE = None
STYLES = ("subclass", "subclass-init", "password-keyword", "positional", "inbound-bytearray", "inbound-memoryview", "blob-bytearray", "unbound-calls")
# differential oracles only (the subclass changes what finish() returns): C08
STYLES_DIFFERENTIAL = ("subclass-extends",)
_SUBS = {}


class call_style:
    def __init__(self, style):
        assert style is None or style in STYLES or style in STYLES_DIFFERENTIAL, style
        self.style = style

    def __enter__(self):
        global STYLE
        self.old, STYLE = STYLE, self.style
        return self

    def __exit__(self, *a):
        global STYLE
        STYLE = self.old


def styled_class(cls):
    """the public class as an application would use it under the current style"""
    if STYLE == "subclass":
        k = (cls, "plain")
        if k not in _SUBS:
            _SUBS[k] = type("App" + cls.__name__, (cls,), {"__doc__": "application subclass adding nothing"})
        return _SUBS[k]
    if STYLE == "subclass-init":
        k = (cls, "init")
        if k not in _SUBS:
            def __init__(self, *a, **kw):
                cls.__init__(self, *a, **kw)
                self.app_session_label = "label-%d" % len(a)
                self.app_log = []

            def describe(self):
                return "%s(%s)" % (type(self).__name__, self.app_session_label)
            _SUBS[k] = type("Tracked" + cls.__name__, (cls,), {"__init__": __init__, "describe": describe})
        return _SUBS[k]
    if STYLE == "subclass-extends":
        k = (cls, "extends")
        if k not in _SUBS:
            import hashlib as _h

            def finish(self, msg):
                # an application that binds the session key to its own label
                return _h.sha256(b"application-label|" + cls.finish(self, msg)).digest()

            def start(self):
                self.app_started = True
                return cls.start(self)
            _SUBS[k] = type("Labelled" + cls.__name__, (cls,), {"finish": finish, "start": start})
        return _SUBS[k]
    return cls


def styled_inbound(msg):
    if STYLE == "inbound-bytearray" and isinstance(msg, bytes):
        return bytearray(msg)
    if STYLE == "inbound-memoryview" and isinstance(msg, bytes):
        return memoryview(msg)
    return msg


def styled_blob(blob):
    if STYLE == "blob-bytearray" and isinstance(blob, bytes):
        return bytearray(blob)
    return blob


def do_start(obj):
    if STYLE == "unbound-calls":
        return type(obj).start(obj)
    return obj.start()


def do_finish(obj, msg):
    """finish() under the current style (carrier of the inbound message / bound or unbound call)"""
    if STYLE == "unbound-calls":
        return type(obj).finish(obj, msg)
    return obj.finish(styled_inbound(msg))


def do_serialize(obj):
    if STYLE == "unbound-calls":
        return type(obj).serialize(obj)
    return obj.serialize()


def style_relaxed():
    """under a bytes-like carrier style an exception where the definition yields a value is acceptable (the library may refuse the carrier)"""
    return STYLE in ("inbound-bytearray", "inbound-memoryview", "blob-bytearray")


# ---------------------------------------------------------------------------
# instances

class Inst:
    """one parameter set of the library bound to its reference model"""

    def __init__(self, name, kind, params, ref, rparams, small, desc):
        self.name = name
        self.kind = kind            # 'int' | 'ed'
        self.params = params        # library _Params
        self.group = params.group   # library group
        self.ref = ref              # reference group
        self.rp = rparams           # RefParams
        self.small = small
        self.desc = desc            # json-able description, enough to rebuild (see build_inst)
        self.q = ref.q
        self._pw_witness = None

    def entropy(self, x, extra=0):
        """Script that makes start() draw scalar x (mapping re-checked by callers that
        need it through serialize()); `extra` more identical answers are allowed"""
        return Script(self.ref.entropy_for_scalar(x) * (1 + extra))

    def new(self, side, pw, ids=None, x=None, entropy=None):
        L = lib()
        if entropy is None:
            entropy = self.entropy(x) if x is not None else forbid_entropy
        cls = styled_class(L.cls[side])
        if side == "S":
            idS = ids[0] if ids else b""
            if STYLE == "password-keyword":
                return cls(password=pw, idSymmetric=idS, params=self.params, entropy_f=entropy)
            if STYLE == "positional":
                # the released signature: SPAKE2_Symmetric(password, idSymmetric=b"", params=DefaultParams, entropy_f=os.urandom)
                return cls(pw, idS, self.params, entropy)
            return cls(pw, idSymmetric=idS, params=self.params, entropy_f=entropy)
        idA, idB = ids if ids else (b"", b"")
        if STYLE == "password-keyword":
            return cls(entropy_f=entropy, params=self.params, idB=idB, idA=idA, password=pw)
        if STYLE == "positional":
            # the released signature: SPAKE2_A/B(password, idA=b"", idB=b"", params=DefaultParams, entropy_f=os.urandom)
            return cls(pw, idA, idB, self.params, entropy)
        return cls(pw, idA=idA, idB=idB, params=self.params, entropy_f=entropy)

    def restore(self, side, blob):
        if STYLE == "positional":
            return lib().cls[side].from_serialized(blob, self.params)
        return styled_class(lib().cls[side]).from_serialized(styled_blob(blob), params=self.params)

    def w(self, pw):
        """password scalar as the library's group computes it (public group API)"""
        return self.group.password_to_scalar(pw)

    def pw_witnesses(self):
        """{w: password} one witness password per password scalar, found by enumerating
        short passwords through the group's own password_to_scalar (small groups only)"""
        if self._pw_witness is None:
            assert self.small
            wit = {}
            for n in range(0, 3):
                for v in range(256 ** n):
                    pw = v.to_bytes(n, "big") if n else b""
                    w = self.w(pw)
                    if w not in wit:
                        wit[w] = pw
                        if len(wit) == self.q:
                            break
                if len(wit) == self.q:
                    break
            self._pw_witness = wit
        return self._pw_witness


def canon_value(v, depth=0):
    """hashable canonical form of an attribute value of a session instance"""
    if isinstance(v, (bytes, int, bool, str, float)) or v is None:
        return v
    if isinstance(v, bytearray):
        return ("bytearray", bytes(v))
    if isinstance(v, (list, tuple)):
        return (type(v).__name__,) + tuple(canon_value(i, depth + 1) for i in v)
    if isinstance(v, dict) and depth < 6:
        return ("dict",) + tuple(sorted(((repr(k), canon_value(x, depth + 1)) for k, x in v.items())))
    if isinstance(v, (set, frozenset)) and depth < 6:
        return ("set",) + tuple(sorted(repr(canon_value(x, depth + 1)) for x in v))
    import collections as _c
    if isinstance(v, _c.deque):
        return ("deque", v.maxlen) + tuple(canon_value(i, depth + 1) for i in v)
    tb = getattr(v, "to_bytes", None)
    if callable(tb) and not isinstance(v, int):
        try:
            return ("elem", type(v).__name__, tb())
        except Exception:
            return ("elem?", type(v).__name__)
    if isinstance(v, Script):
        return ("script", len(v.calls))
    if callable(v):
        return ("callable", getattr(v, "__name__", type(v).__name__))
    return ("obj", type(v).__name__)


def snapshot(obj):
    """copy of a session instance for exploration: shallow copy of the object, plus a deep copy of every mutable container it
    owns (a list/dict/set/deque/bytearray attribute must not be aliased between explored branches); elements, groups and
    parameter sets stay shared, exactly as between real sessions"""
    import copy as _copy, collections as _c
    new = _copy.copy(obj)
    d = getattr(new, "__dict__", None)
    if d:
        for k, v in list(d.items()):
            if isinstance(v, (list, dict, set, bytearray, _c.deque)):
                try:
                    d[k] = _copy.deepcopy(v)
                except Exception:
                    d[k] = _copy.copy(v)
    return new


def canon_instance(obj):
    """complete instance __dict__ in canonical form (elements by type + encoding, entropy script by position)"""
    return tuple(sorted((k, canon_value(v)) for k, v in vars(obj).items()))


def read_scalar(inst, obj):
    """secret scalar of a started instance as reported through serialize() (public API),
    decoded by the reference codec; None if it cannot be read"""
    try:
        d = json.loads(obj.serialize().decode("ascii"))
        return inst.ref.scalar_dec(bytes.fromhex(d["xy_scalar"]))
    except Exception:
        return None


# -- integer toys ------------------------------------------------------------

INT_TOYS = {
    "T11": (11, 5), "T23": (23, 11), "T29": (29, 7), "T31": (31, 5), "T43": (43, 7),
    "T59": (59, 29), "T509": (509, 127), "T263": (263, 131), "T1543": (1543, 257),
}


def _smallest_generator(p, q):
    for h in range(2, p):
        g = pow(h, (p - 1) // q, p)
        if g != 1:
            return g
    raise ValueError


def _pick_seeds(R, avoid):
    """seeds for M, N, S chosen through the REFERENCE so that the three are defined,
    non-identity, pairwise distinct and different from the generator (where the group is
    large enough)"""
    chosen, elems = [], []
    for stem in (b"M", b"N", b"symmetric"):
        k = 0
        while True:
            seed = stem if k == 0 else stem + str(k).encode()
            k += 1
            try:
                e = R.arbitrary(seed)
            except Degenerate:
                continue
            if e in elems or e in avoid:
                if k < 200:
                    continue
            chosen.append(seed)
            elems.append(e)
            break
    return tuple(chosen)


def int_toy(name, seeds=None):
    L = lib()
    p, q = INT_TOYS[name]
    g = _smallest_generator(p, q)
    R = RefIntGroup(p, q, g)
    if R.arbitrary_raw(b"") == 0:
        raise HarnessError("toy %s: fingerprint seed is ill-defined" % name)
    if seeds is None:
        seeds = _pick_seeds(R, {g, 1})
    grp = L.groups.IntegerGroup(p=p, q=q, g=g)
    P = L.params._Params(grp, M=seeds[0], N=seeds[1], S=seeds[2])
    rp = RefParams(R, *seeds)
    return Inst(name, "int", P, R, rp, True,
                {"make": "int_toy", "name": name, "p": p, "q": q, "g": g, "seeds": [s.hex() for s in seeds]})


def int_custom(p, q, g, seeds=(b"M", b"N", b"symmetric"), name=None):
    L = lib()
    R = RefIntGroup(p, q, g)
    grp = L.groups.IntegerGroup(p=p, q=q, g=g)
    P = L.params._Params(grp, M=seeds[0], N=seeds[1], S=seeds[2])
    rp = RefParams(R, *seeds)
    return Inst(name or "I%d" % p, "int", P, R, rp, p < 10**5,
                {"make": "int_custom", "p": p, "q": q, "g": g, "seeds": [s.hex() for s in seeds]})


# -- toy Edwards curves --------------------------------------------------------

_ALLOWED_BIG = {1 << 255, (1 << 255) - 1, 2**256, (1 << 254) - 1 - 7, 1 << 254}


def _big_consts(code, out):
    for c in code.co_consts:
        if isinstance(c, int) and not isinstance(c, bool) and abs(c) > 2**64:
            out.add(c)
        elif isinstance(c, types.CodeType):
            _big_consts(c, out)
        elif isinstance(c, (tuple, frozenset)):
            for cc in c:
                if isinstance(cc, int) and abs(cc) > 2**64:
                    out.add(cc)


def trust_gate(mod):
    """integer literals > 2^64 inside functions/methods of the copied module.  Only the
    encoding literals are expected; anything else (an inlined field prime or group order)
    means patching the module globals may not re-parametrise the code."""
    found = set()
    for v in vars(mod).values():
        if isinstance(v, types.FunctionType) and v.__module__ == mod.__name__:
            _big_consts(v.__code__, found)
        elif isinstance(v, type) and v.__module__ == mod.__name__:
            for m in vars(v).values():
                f = getattr(m, "__func__", m)
                if isinstance(f, types.FunctionType):
                    _big_consts(f.__code__, found)
    return sorted(found - _ALLOWED_BIG)


_KNOWN_CURVE_GLOBALS = {"Q", "L", "d", "I", "B", "Bx", "By", "Base", "Zero", "_zero_bytes"}


def _holds_big(v, depth=0):
    if isinstance(v, bool):
        return False
    if isinstance(v, int):
        return abs(v) > 2**64
    if depth > 3:
        return False
    if isinstance(v, (list, tuple, set, frozenset)):
        return any(_holds_big(i, depth + 1) for i in list(v)[:64])
    if isinstance(v, dict):
        return any(_holds_big(i, depth + 1) for i in list(v.values())[:64]) or any(_holds_big(i, depth + 1) for i in list(v.keys())[:64])
    xy = getattr(v, "XYTZ", None)
    if xy is not None:
        return _holds_big(xy, depth + 1)
    return False


def derived_state_gate(mod):
    """module-level values of the copied module (other than the known curve constants) that hold field-sized integers: tables or
    points precomputed at import from the real curve.  Patching Q, L, d, B afterwards would leave them stale, so a toy instance
    built from such a module would mis-report a correct optimisation as a defect."""
    bad = []
    for k, v in vars(mod).items():
        if k in _KNOWN_CURVE_GLOBALS or k.startswith("__"):
            continue
        if isinstance(v, (types.FunctionType, types.ModuleType, type)):
            continue
        if _holds_big(v):
            bad.append(k)
    return sorted(bad)


_TOY_MODS = {}


def load_toy_ed_module(Q, d, L):
    """second copy of the library's ed25519_basic.py, re-parametrised to (Q, d, L)"""
    key = (Q, d, L)
    if key in _TOY_MODS:
        return _TOY_MODS[key]
    lib()
    name = "spake2._toy_eb_%d_%d" % (Q, d)
    path = os.path.join(PKG, "ed25519_basic.py")
    if not os.path.exists(path):
        raise HarnessError("ed25519_basic.py not found")
    spec = importlib.util.spec_from_file_location(name, path)
    m = importlib.util.module_from_spec(spec)
    sys.modules[name] = m
    spec.loader.exec_module(m)
    _cooperative_locks(name)
    need = ["Q", "L", "d", "I", "B", "Base", "Zero", "_zero_bytes", "Element", "_ZeroElement",
            "xform_affine_to_extended"]
    missing = [n for n in need if not hasattr(m, n)]
    if missing:
        raise HarnessError("toy loader: names missing in ed25519_basic: %s" % missing)
    bad = trust_gate(m)
    if bad:
        raise HarnessError("inlined-constant: %s" % [hex(b) for b in bad[:3]])
    stale = derived_state_gate(m)
    if stale:
        raise HarnessError("module-level state derived from the curve constants at import (%s): toy re-parametrisation would leave it stale" % ", ".join(stale[:4]))
    R = RefEdwards(Q, d, L)
    m.Q, m.L, m.d = Q, L, d % Q
    m.I = pow(2, (Q - 1) // 4, Q)
    m.B = [R.B[0], R.B[1]]
    if hasattr(m, "Bx"):
        m.Bx, m.By = R.B
    m.Base = m.Element(m.xform_affine_to_extended(m.B))
    m.Zero = m._ZeroElement(m.xform_affine_to_extended((0, 1)))
    m._zero_bytes = m.Zero.to_bytes()
    _TOY_MODS[key] = (m, R)
    return m, R


def load_toy_ed_group(Q, d, L):
    m, R = load_toy_ed_module(Q, d, L)
    name = "spake2._toy_eg_%d_%d" % (Q, d)
    if name in sys.modules:
        return sys.modules[name].Ed25519Group, m, R
    path = os.path.join(PKG, "ed25519_group.py")
    spec = importlib.util.spec_from_file_location(name, path)
    g = importlib.util.module_from_spec(spec)
    sys.modules[name] = g
    spec.loader.exec_module(g)
    _cooperative_locks(name)
    if not hasattr(g, "ed25519_basic") or not hasattr(g, "Ed25519Group"):
        raise HarnessError("toy loader: ed25519_group layout changed")
    g.ed25519_basic = m
    g.Ed25519Group.Base = m.Base
    g.Ed25519Group.Zero = m.Zero
    return g.Ed25519Group, m, R


def ed_toy(Q, d, L, seeds=None):
    Lb = lib()
    grp, m, R = load_toy_ed_group(Q, d, L)
    if seeds is None:
        seeds = _pick_seeds(R, {R.B, (0, 1)})
    P = Lb.params._Params(grp, M=seeds[0], N=seeds[1], S=seeds[2])
    rp = RefParams(R, *seeds)
    inst = Inst("E%d" % Q, "ed", P, R, rp, True,
                {"make": "ed_toy", "Q": Q, "d": d, "L": L, "seeds": [s.hex() for s in seeds]})
    inst.mod = m
    return inst


# -- shipped sets --------------------------------------------------------------

SHIPPED = ["ParamsEd25519", "Params1024", "Params2048", "Params3072"]
# unusual but valid integer groups (frozen in mc/ref/wide_groups.json, generated by tools/make_wide.py): a 200-bit order in a 320-bit
# field, a 256-bit safe-prime group (p = 2q+1), and a 521-bit field with a 163-bit order (neither a whole number of bytes)
WIDE = ["W320", "W256s", "W521"]
_WIDE = None


def wide_group(name):
    global _WIDE
    if _WIDE is None:
        import json
        _WIDE = json.load(open(os.path.join(os.path.dirname(os.path.abspath(__file__)), "ref", "wide_groups.json")))
    d = _WIDE[name]
    return int(d["p"]), int(d["q"]), int(d["g"])
_REF_SHIPPED = {}


def ref_shipped_group(name):
    """reference group of a shipped set built from the FROZEN constants (golden.json), not
    from the tree"""
    if name not in _REF_SHIPPED:
        if name == "ParamsEd25519":
            _REF_SHIPPED[name] = RefEdwards()
        else:
            from .ref import golden
            c = golden.load()["groups"][name]
            _REF_SHIPPED[name] = RefIntGroup(int(c["p"], 16), int(c["q"], 16), int(c["g"], 16))
    return _REF_SHIPPED[name]


def shipped(name):
    L = lib()
    P = getattr(L.pall, name)
    R = ref_shipped_group(name)
    rp = RefParams(R)
    inst = Inst(name, R.kind, P, R, rp, False, {"make": "shipped", "name": name})
    if R.kind == "ed":
        inst.mod = L.eb
    return inst


class WrapGroup:
    """duck-typed group handed to the public `_Params(group)`: delegates everything to a
    library group except that selected passwords map to forced scalars and selected seeds
    map to known multiples of Base"""

    def __init__(self, inner, pw_map=None, ae_dlog=None):
        self._i = inner
        self._pw = dict(pw_map or {})
        self._ae = dict(ae_dlog or {})
        self.Base = inner.Base
        self.Zero = inner.Zero
        self.scalar_size_bytes = inner.scalar_size_bytes
        self.element_size_bytes = inner.element_size_bytes

    def order(self):
        return self._i.order()

    def random_scalar(self, f):
        return self._i.random_scalar(f)

    def scalar_to_bytes(self, i):
        return self._i.scalar_to_bytes(i)

    def bytes_to_scalar(self, b):
        return self._i.bytes_to_scalar(b)

    def password_to_scalar(self, pw):
        if pw in self._pw:
            return self._pw[pw]
        return self._i.password_to_scalar(pw)

    def arbitrary_element(self, seed):
        if seed in self._ae:
            return self._i.Base.scalarmult(self._ae[seed])
        return self._i.arbitrary_element(seed)

    def bytes_to_element(self, b):
        return self._i.bytes_to_element(b)


class _RefWrap:
    """reference-side twin of WrapGroup"""

    def __init__(self, R, pw_map):
        self._R = R
        self._pw = dict(pw_map or {})

    def __getattr__(self, k):
        return getattr(self._R, k)

    def pw_scalar(self, pw):
        if pw in self._pw:
            return self._pw[pw]
        return self._R.pw_scalar(pw)


def wrapped(base, pw_map=None, dlogs=None, name=None):
    """parameter set over the group of `base` (an Inst) with forced password scalars and,
    optionally, known-dlog M/N/S = dlogs[i]*Base"""
    L = lib()
    ae = {}
    seeds = list(base.rp.seeds)
    elems = [base.rp.M, base.rp.N, base.rp.S]
    R = base.ref
    if dlogs:
        for i, k in enumerate(dlogs):
            if k is None:
                continue
            seed = b"dlog-%d-%d" % (i, k)
            seeds[i] = seed
            ae[seed] = k
            elems[i] = R.mul(R.base(), k)
    G = WrapGroup(base.group, pw_map, ae)
    P = L.params._Params(G, M=seeds[0], N=seeds[1], S=seeds[2])
    RW = _RefWrap(R, pw_map)
    rp = RefParams(RW, *seeds, elems=tuple(elems))
    inst = Inst(name or base.name + "+w", base.kind, P, RW, rp, base.small,
                {"make": "wrapped", "base": base.desc,
                 "pw_map": {k.hex(): str(v) for k, v in (pw_map or {}).items()},
                 "dlogs": [None if k is None else str(k) for k in (dlogs or [])]})
    if hasattr(base, "mod"):
        inst.mod = base.mod
    return inst


def alt_seed(base, seed, tag=b"'"):
    """another seed for the same group whose published construction is well-defined and gives an element different from
    the identity, the generator and the instance's current M, N, S (decided by the REFERENCE)"""
    R = base.ref
    avoid = {R.enc(base.rp.M), R.enc(base.rp.N), R.enc(base.rp.S), R.enc(R.base()), R.enc(R.identity)}
    k = 0
    while True:
        cand = seed + tag + (str(k).encode() if k else b"")
        k += 1
        try:
            e = R.arbitrary(cand)
        except Degenerate:
            continue
        if R.enc(e) in avoid and k < 300:
            continue
        return cand


def reseeded(base, M=None, N=None, S=None, name=None):
    """same group object, other seeds"""
    L = lib()
    seeds = (base.rp.seeds[0] if M is None else M, base.rp.seeds[1] if N is None else N, base.rp.seeds[2] if S is None else S)
    P = L.params._Params(base.group, M=seeds[0], N=seeds[1], S=seeds[2])
    rp = RefParams(base.ref, *seeds)
    inst = Inst(name or base.name + "'", base.kind, P, base.ref, rp, base.small,
                {"make": "reseeded", "base": base.desc, "seeds": [s.hex() for s in seeds]})
    if hasattr(base, "mod"):
        inst.mod = base.mod
    return inst


_CACHE = {}


def get(name):
    """catalogue lookup by name: 'T23', 'E109', 'ParamsEd25519', ..."""
    if name in _CACHE:
        return _CACHE[name]
    if name in INT_TOYS:
        inst = int_toy(name)
    elif name.startswith("E") and name[1:].isdigit():
        Qn = int(name[1:])
        cur = [c for c in TOY_CURVES if c[0] == Qn]
        if not cur:
            raise HarnessError("no toy curve " + name)
        inst = ed_toy(*cur[0])
    elif name in SHIPPED:
        inst = shipped(name)
    elif name in WIDE:
        inst = int_custom(*wide_group(name), name=name)
    else:
        raise HarnessError("unknown instance " + name)
    _CACHE[name] = inst
    return inst


def build_inst(desc):
    """rebuild an instance from its json description (used by replays)"""
    mk = desc["make"]
    if mk == "int_toy":
        return int_toy(desc["name"], tuple(bytes.fromhex(s) for s in desc["seeds"]))
    if mk == "int_custom":
        return int_custom(desc["p"], desc["q"], desc["g"], tuple(bytes.fromhex(s) for s in desc["seeds"]))
    if mk == "ed_toy":
        return ed_toy(desc["Q"], desc["d"], desc["L"], tuple(bytes.fromhex(s) for s in desc["seeds"]))
    if mk == "shipped":
        return shipped(desc["name"])
    if mk in ("int_group", "ed_group"):
        return get_group(desc["name"])
    if mk == "wrapped":
        base = build_inst(desc["base"])
        pw_map = {bytes.fromhex(k): int(v) for k, v in desc["pw_map"].items()}
        dl = [None if k is None else int(k) for k in desc["dlogs"]] or None
        return wrapped(base, pw_map, dl)
    if mk == "reseeded":
        base = build_inst(desc["base"])
        s = [bytes.fromhex(x) for x in desc["seeds"]]
        return reseeded(base, *s)
    raise HarnessError("cannot rebuild " + repr(desc))


def try_get(name):
    """(inst, None) or (None, reason) - rule 4: degrade, don't fail.  A reason starting with 'LIB:' means the library itself
    raised while building a parameter set over a VALID group through its public API (IntegerGroup / _Params)."""
    try:
        return get(name), None
    except HarnessError as e:
        return None, str(e)
    except Exception as e:
        return None, "LIB:%s: %s" % (type(e).__name__, e)


class _Hint:
    """stand-in for an unavailable instance in cost estimates (sort keys): never raises"""
    q, kind, small = 11, "int", True

    class ref:
        esize, Q = 32, 53


def hint(name):
    inst, _ = try_get(name)
    return inst if inst is not None else _Hint


def lib_refuses_valid_group(name, why):
    """True when an integer toy instance - a valid (p, q, g) with reference-chosen, well-defined seeds, built only through the
    public IntegerGroup/_Params API - cannot be constructed because the library raises"""
    return (name in INT_TOYS or name in WIDE) and isinstance(why, str) and why.startswith("LIB:")


class GroupOnly:
    """a library group bound to its reference group, without a parameter set (C15 needs nothing else)"""

    def __init__(self, name, kind, group, ref, small, desc):
        self.name, self.kind, self.group, self.ref, self.small, self.desc = name, kind, group, ref, small, desc
        self.q = ref.q


def get_group(name):
    L = lib()
    if name in INT_TOYS:
        p, q = INT_TOYS[name]
        g = _smallest_generator(p, q)
        return GroupOnly(name, "int", L.groups.IntegerGroup(p=p, q=q, g=g), RefIntGroup(p, q, g), True,
                         {"make": "int_group", "p": p, "q": q, "g": g, "name": name})
    if name.startswith("E") and name[1:].isdigit():
        cur = [c for c in TOY_CURVES if c[0] == int(name[1:])][0]
        grp, m, R = load_toy_ed_group(*cur)
        return GroupOnly(name, "ed", grp, R, True, {"make": "ed_group", "Q": cur[0], "d": cur[1], "L": cur[2], "name": name})
    inst = get(name)
    return GroupOnly(name, inst.kind, inst.group, inst.ref, False, inst.desc)
