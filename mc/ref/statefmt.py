"""Independent encoder/decoder of the released (0.7-0.9) persisted state format."""
import json, itertools


def state_dict(P, side, pw, ids, x):
    G = P.G
    d = {"hashed_params": P.fingerprint(side), "side": side}
    if side == "S":
        d["idS"] = ids[0].hex()
    else:
        d["idA"] = ids[0].hex()
        d["idB"] = ids[1].hex()
    d["password"] = pw.hex()
    d["xy_scalar"] = G.scalar_enc(x).hex()
    return d


STYLES = ["compact", "spaced", "indented", "padded"]


def dumps(d, order=None, style="spaced"):
    keys = list(order) if order is not None else list(d)
    od = {k: d[k] for k in keys}
    if style == "compact":
        s = json.dumps(od, separators=(",", ":"))
    elif style == "spaced":
        s = json.dumps(od)
    elif style == "indented":
        s = json.dumps(od, indent=2)
    elif style == "padded":
        s = " \n\t" + json.dumps(od, separators=(" ,\n", " :\t")) + " \r\n"
    else:
        raise ValueError(style)
    return s.encode("ascii")


def all_orders(d):
    return itertools.permutations(list(d))


_HEX = set("0123456789abcdef")


def parse(blob, G, side):
    """parse library output per the released format.  Returns (fields, problems)."""
    problems = []
    try:
        txt = blob.decode("ascii")
    except Exception:
        return None, ["not ASCII"]
    if any(not (32 <= ord(c) < 127) for c in txt):
        problems.append("non-printable character in output")
    try:
        d = json.loads(txt)
    except Exception as e:
        return None, ["not JSON: %s" % e]
    if not isinstance(d, dict):
        return None, ["not a JSON object"]
    want = {"hashed_params", "side", "password", "xy_scalar"} | ({"idS"} if side == "S" else {"idA", "idB"})
    if not want <= set(d):
        problems.append("missing keys %s (object has %s)" % (sorted(want - set(d)), sorted(d)))
    out = {}
    for k in want & set(d):
        v = d[k]
        if not isinstance(v, str):
            problems.append("%s is not a string" % k)
            continue
        if k == "side":
            out[k] = v
            continue
        if not set(v) <= _HEX or len(v) % 2:
            problems.append("%s is not lower-case hex" % k)
            continue
        out[k] = bytes.fromhex(v) if k != "hashed_params" else v
    if "xy_scalar" in out:
        if len(out["xy_scalar"]) != G.ssize:
            problems.append("xy_scalar width %d != %d" % (len(out["xy_scalar"]), G.ssize))
        else:
            out["x"] = G.scalar_dec(out["xy_scalar"])
            if out["x"] is None:
                problems.append("xy_scalar out of range")
    return out, problems
