"""Frozen data of the released format (generated once by tools/make_golden.py from the
pinned tree, cross-validated there against the reference derivations and the repository's
published vectors).  The checks only ever read it."""
import json, os, hashlib

_PATH = os.path.join(os.path.dirname(__file__), "golden.json")
_G = None


def load():
    global _G
    if _G is None:
        raw = open(_PATH, "rb").read()
        d = json.loads(raw)
        body = json.dumps(d["data"], sort_keys=True).encode()
        assert hashlib.sha256(body).hexdigest() == d["sha256"], "golden.json corrupted"
        _G = d["data"]
    return _G
