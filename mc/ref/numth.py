"""Number theory for the oracles: primality (Miller-Rabin on fixed bases + strong
Lucas), square roots mod p (Tonelli-Shanks), multiplicative order by enumeration."""

_SMALL = [2, 3, 5, 7, 11, 13, 17, 19, 23, 29, 31, 37, 41, 43, 47, 53, 59, 61, 67, 71, 73, 79,
          83, 89, 97, 101, 103, 107, 109, 113, 127, 131, 137, 139, 149, 151, 157, 163, 167, 173]


def _mr(n, a):
    d, s = n - 1, 0
    while d % 2 == 0:
        d //= 2
        s += 1
    x = pow(a, d, n)
    if x in (1, n - 1):
        return True
    for _ in range(s - 1):
        x = x * x % n
        if x == n - 1:
            return True
    return False


def _jacobi(a, n):
    a %= n
    r = 1
    while a:
        while a % 2 == 0:
            a //= 2
            if n % 8 in (3, 5):
                r = -r
        a, n = n, a
        if a % 4 == 3 and n % 4 == 3:
            r = -r
        a %= n
    return r if n == 1 else 0


def _isqrt_exact(n):
    import math
    r = math.isqrt(n)
    return r * r == n


def _strong_lucas(n):
    if _isqrt_exact(n):
        return False
    D = 5
    while True:
        j = _jacobi(D, n)
        if j == -1:
            break
        if j == 0 and abs(D) % n != 0:
            return False
        D = -D - 2 if D > 0 else -D + 2
    P, Qq = 1, (1 - D) // 4
    d, s = n + 1, 0
    while d % 2 == 0:
        d //= 2
        s += 1
    # compute U_d, V_d mod n
    U, V, Qk = 1, P, Qq % n
    inv2 = pow(2, -1, n)
    for bit in bin(d)[3:]:
        U, V = U * V % n, (V * V - 2 * Qk) % n
        Qk = Qk * Qk % n
        if bit == "1":
            U, V = (P * U + V) * inv2 % n, (D * U + P * V) * inv2 % n
            Qk = Qk * Qq % n
    if U == 0 or V == 0:
        return True
    for _ in range(s - 1):
        V = (V * V - 2 * Qk) % n
        Qk = Qk * Qk % n
        if V == 0:
            return True
    return False


def is_prime(n):
    if n < 2:
        return False
    for p in _SMALL:
        if n == p:
            return True
        if n % p == 0:
            return False
    if n < 173 * 173:
        return True
    for a in _SMALL:
        if not _mr(n, a):
            return False
    return _strong_lucas(n)


def is_prime_trial(n):
    if n < 2:
        return False
    i = 2
    while i * i <= n:
        if n % i == 0:
            return False
        i += 1
    return True


def sqrt_mod(a, p):
    """Return a square root of a mod prime p, or None."""
    a %= p
    if a == 0:
        return 0
    if p == 2:
        return a
    if pow(a, (p - 1) // 2, p) != 1:
        return None
    if p % 4 == 3:
        return pow(a, (p + 1) // 4, p)
    q, s = p - 1, 0
    while q % 2 == 0:
        q //= 2
        s += 1
    z = 2
    while pow(z, (p - 1) // 2, p) != p - 1:
        z += 1
    m, c, t, r = s, pow(z, q, p), pow(a, q, p), pow(a, (q + 1) // 2, p)
    while t != 1:
        i, t2 = 0, t
        while t2 != 1:
            t2 = t2 * t2 % p
            i += 1
        b = pow(c, 1 << (m - i - 1), p)
        m, c = i, b * b % p
        t, r = t * c % p, r * b % p
    return r


def mult_order(g, p):
    """order of g in Z_p^* by enumeration (small p only); 0 if g is not a unit"""
    g %= p
    if g == 0:
        return 0
    k, x = 1, g
    while x != 1:
        x = x * g % p
        k += 1
        if k > p:
            return 0
    return k


def selftest():
    assert [n for n in range(60) if is_prime(n)] == [2, 3, 5, 7, 11, 13, 17, 19, 23, 29, 31, 37,
                                                     41, 43, 47, 53, 59]
    for n in range(2, 40000):
        assert is_prime(n) == is_prime_trial(n), n
    assert is_prime(2**255 - 19) and not is_prime(2**255 - 21)
    assert is_prime(2**252 + 27742317777372353535851937790883648493)
    # Carmichael / strong pseudoprimes
    for n in (561, 41041, 3215031751, 3825123056546413051, 318665857834031151167461):
        assert not is_prime(n), n
    for p in (13, 17, 29, 109, 2**255 - 19):
        for a in (2, 3, 4, 5, 10):
            r = sqrt_mod(a, p)
            if r is not None:
                assert r * r % p == a % p
            else:
                assert pow(a, (p - 1) // 2, p) == p - 1
    return True
