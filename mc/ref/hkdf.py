"""HKDF-SHA256 (RFC 5869) from hmac/hashlib only. Shares no code with the library
(which uses the `cryptography` package)."""
import hmac, hashlib


def hkdf(ikm, length, info, salt=b""):
    if not salt:
        salt = b"\x00" * 32
    prk = hmac.new(salt, ikm, hashlib.sha256).digest()
    out, t, i = b"", b"", 1
    while len(out) < length:
        t = hmac.new(prk, t + info + bytes([i]), hashlib.sha256).digest()
        out += t
        i += 1
    return out[:length]


def selftest():
    # RFC 5869 test case 1 and 3
    ikm = bytes.fromhex("0b" * 22)
    salt = bytes.fromhex("000102030405060708090a0b0c")
    info = bytes.fromhex("f0f1f2f3f4f5f6f7f8f9")
    okm = hkdf(ikm, 42, info, salt)
    assert okm.hex() == ("3cb25f25faacd57a90434f64d0362f2a2d2d0a90cf1a5a4c5db02d56ecc4c5bf"
                         "34007208d5b887185865")
    okm = hkdf(bytes.fromhex("0b" * 22), 42, b"", b"")
    assert okm.hex() == ("8da4e775a563c18f715f802a063c5a31b8a11f5c5ee1879ec3454e5f3c738d2d"
                         "9d201395faa4b61a96c8")
    return True
