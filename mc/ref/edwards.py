"""Reference model of a twisted Edwards curve -x^2 + y^2 = 1 + d x^2 y^2 over GF(Q) in
AFFINE coordinates (one inversion per operation; the library uses extended projective
coordinates, so no formula is shared).  Generic in (Q, d, L): used for Ed25519 itself and
for the toy curves."""
from .hkdf import hkdf
from .numth import sqrt_mod
from .intgroup import Degenerate

Q25519 = 2**255 - 19
L25519 = 2**252 + 27742317777372353535851937790883648493
D25519 = (-121665 * pow(121666, -1, Q25519)) % Q25519


class RefEdwards:
    kind = "ed"
    refuses_identity = True
    esize = 32
    ssize = 32

    def __init__(self, Q=Q25519, d=D25519, L=L25519, B=None):
        self.Q, self.d, self.L = Q, d % Q, L
        self.q = L
        self.identity = (0, 1)
        if B is None:
            if Q == Q25519:
                y = 4 * pow(5, -1, Q) % Q
                x = self.x_from_y(y, 0)
                B = (x, y)
            else:
                B = self.default_toy_base()
        self.B = B
        self._pts = None
        self._dlog = None

    # -- curve
    def on_curve(self, P):
        x, y = P
        Q, d = self.Q, self.d
        return (-x * x + y * y - 1 - d * x * x * y * y) % Q == 0

    def x_from_y(self, y, sign):
        """x with given parity on the curve for this y, or None"""
        Q, d = self.Q, self.d
        den = (d * y * y + 1) % Q
        if den == 0:
            return None
        xx = (y * y - 1) * pow(den, -1, Q) % Q
        x = sqrt_mod(xx, Q)
        if x is None:
            return None
        if x == 0:
            return 0 if sign == 0 else None
        if x & 1 != sign:
            x = Q - x
        return x

    def add(self, P1, P2):
        (x1, y1), (x2, y2) = P1, P2
        Q, d = self.Q, self.d
        t = d * x1 * x2 * y1 * y2 % Q
        x3 = (x1 * y2 + y1 * x2) * pow((1 + t) % Q, -1, Q) % Q
        y3 = (y1 * y2 + x1 * x2) * pow((1 - t) % Q, -1, Q) % Q
        return (x3, y3)

    def neg(self, P):
        return ((-P[0]) % self.Q, P[1])

    def mul_raw(self, P, n):
        """n*P for any curve point, n >= 0 (no reduction of n)"""
        R = (0, 1)
        A = P
        while n:
            if n & 1:
                R = self.add(R, A)
            A = self.add(A, A)
            n >>= 1
        return R

    def mul(self, P, n):
        """n*P for P in the order-L subgroup, any integer n"""
        return self.mul_raw(P, n % self.L)

    def base(self):
        return self.B

    def is_identity(self, P):
        return P == (0, 1)

    def member(self, P):
        return self.on_curve(P) and self.mul_raw(P, self.L) == (0, 1)

    # -- codecs
    def enc(self, P):
        x, y = P
        return (y | ((x & 1) << 255)).to_bytes(32, "little")

    def dec_curve(self, b):
        """strict RFC 8032-style decoding onto the full curve: point or None"""
        if len(b) != 32:
            return None
        v = int.from_bytes(b, "little")
        sign, y = v >> 255, v & ((1 << 255) - 1)
        if y >= self.Q:
            return None
        x = self.x_from_y(y, sign)
        if x is None:
            return None
        return (x, y)

    def dec_strict(self, b):
        """accept <=> 32 bytes, canonical, on curve, in the order-L subgroup, not identity"""
        P = self.dec_curve(b)
        if P is None or P == (0, 1):
            return None
        if self.mul_raw(P, self.L) != (0, 1):
            return None
        return P

    def scalar_enc(self, i):
        return i.to_bytes(32, "little")

    def scalar_dec(self, b):
        if len(b) != 32:
            return None
        return int.from_bytes(b, "little")

    # -- derivations
    def pw_scalar(self, pw):
        return int.from_bytes(hkdf(pw, 32 + 16, b"SPAKE2 pw"), "big") % self.L

    def arbitrary_trace(self, seed):
        """first curve point at or after the HKDF-derived y (even x), times 8; low-order
        candidates skipped.  Returns (element, increments tried)."""
        Q = self.Q
        y0 = int.from_bytes(hkdf(seed, 48, b"SPAKE2 arbitrary element"), "big") % Q
        for plus in range(4 * Q if Q < 10**6 else 10**6):
            y = (y0 + plus) % Q
            x = self.x_from_y(y, 0)
            if x is None:
                continue
            P8 = self.mul_raw((x, y), 8)
            if P8 == (0, 1):
                continue
            return P8, plus
        raise Degenerate("no point found")

    def arbitrary(self, seed):
        return self.arbitrary_trace(seed)[0]

    def sample_scalar(self, stream):
        return int.from_bytes(stream(64), "big") % self.L, 1

    def entropy_for_scalar(self, x):
        return [x.to_bytes(64, "big")]

    # -- enumeration (toy curves only)
    def points(self):
        if self._pts is None:
            Q = self.Q
            assert Q < 5000
            pts = []
            for y in range(Q):
                for s in (0, 1):
                    x = self.x_from_y(y, s)
                    if x is not None:
                        pts.append((x, y))
            self._pts = pts
        return self._pts

    def elements(self):
        out, P = [], (0, 1)
        for _ in range(self.L):
            out.append(P)
            P = self.add(P, self.B)
        return out

    def dlog(self, P):
        if self._dlog is None:
            self._dlog = {v: k for k, v in enumerate(self.elements())}
        return self._dlog.get(P)

    def torsion(self):
        """the 8 points of order dividing 8"""
        if self.Q < 5000:
            return [P for P in self.points() if self.mul_raw(P, 8) == (0, 1)]
        # real curve: 8-torsion = L * (any point of order 8L); find by search over small y
        out = {(0, 1)}
        y = 2
        while len(out) < 8:
            x = self.x_from_y(y, 0)
            y += 1
            if x is None:
                continue
            T = self.mul_raw((x, y - 1), self.L)
            P = (0, 1)
            for _ in range(8):
                P = self.add(P, T)
                out.add(P)
        return sorted(out)

    def order_of(self, P):
        for o in (1, 2, 4, 8, self.L, 2 * self.L, 4 * self.L, 8 * self.L):
            if self.mul_raw(P, o) == (0, 1):
                return o
        return None

    def default_toy_base(self):
        for y in range(2, self.Q):
            x = self.x_from_y(y, 0)
            if x is None:
                continue
            P8 = self.mul_raw((x, y), 8)
            if P8 != (0, 1):
                return P8
        raise ValueError("no base")

    def describe(self):
        if self.Q == Q25519:
            return {"kind": "ed", "curve": "ed25519"}
        return {"kind": "ed", "Q": self.Q, "d": self.d, "L": self.L}


TOY_CURVES = [(29, 3, 3), (37, 2, 5), (53, 3, 7), (109, 11, 13), (157, 24, 19), (229, 10, 29)]


def selftest():
    from .numth import is_prime
    for (Q, d, L) in TOY_CURVES:
        E = RefEdwards(Q, d, L)
        assert Q % 8 == 5 and is_prime(Q) and is_prime(L)
        assert pow(d, (Q - 1) // 2, Q) == Q - 1
        pts = E.points()
        assert len(pts) == 8 * L, (Q, len(pts))
        assert all(E.on_curve(P) for P in pts)
        assert E.member(E.B) and E.B != (0, 1)
        S = set(pts)
        for P in pts[:40]:
            for R in pts[:40]:
                assert E.add(P, R) in S
                assert E.add(P, R) == E.add(R, P)
        assert len(E.torsion()) == 8
        assert len(set(E.elements())) == L
    E = RefEdwards()
    assert E.enc(E.B).hex() == "5866666666666666666666666666666666666666666666666666666666666666"
    assert E.mul_raw(E.B, E.L) == (0, 1)
    assert E.dec_strict(E.enc(E.B)) == E.B
    T = E.torsion()
    assert len(T) == 8 and all(E.mul_raw(t, 8) == (0, 1) for t in T)
    return True
