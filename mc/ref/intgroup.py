"""Reference model of the order-q subgroup of Z_p^*, as plain ints.  Written from the
property statements (C03, C05, C14, C15) - shares no code with spake2.groups."""
from .hkdf import hkdf


class Degenerate(Exception):
    """the published construction itself is ill-defined / trivial for this input"""


def nbytes(n):
    return max(1, (n.bit_length() + 7) // 8)


class RefIntGroup:
    kind = "int"
    refuses_identity = False

    def __init__(self, p, q, g):
        self.p, self.q, self.g = p, q, g
        self.esize = nbytes(p)
        self.ssize = nbytes(q)
        self.identity = 1
        self._dlog = None

    # -- arithmetic (written additively, like the library's API)
    def base(self):
        return self.g

    def add(self, a, b):
        return a * b % self.p

    def mul(self, a, n):
        return pow(a, n % self.q, self.p)

    def neg(self, a):
        return pow(a, -1, self.p)

    def is_identity(self, a):
        return a == 1

    def member(self, i):
        return 0 < i < self.p and pow(i, self.q, self.p) == 1

    # -- codecs
    def enc(self, e):
        return e.to_bytes(self.esize, "big")

    def dec_strict(self, b):
        """element or None.  accept <=> exact length, 0 < i < p, i^q = 1"""
        if len(b) != self.esize:
            return None
        i = int.from_bytes(b, "big")
        return i if self.member(i) else None

    def scalar_enc(self, i):
        return i.to_bytes(self.ssize, "big")

    def scalar_dec(self, b):
        if len(b) != self.ssize:
            return None
        i = int.from_bytes(b, "big")
        return i if i < self.q else None

    # -- derivations
    def pw_scalar(self, pw):
        return int.from_bytes(hkdf(pw, self.ssize + 16, b"SPAKE2 pw"), "big") % self.q

    def arbitrary_raw(self, seed):
        """the published construction, without judging the result"""
        h = int.from_bytes(hkdf(seed, self.esize, b"SPAKE2 arbitrary element"), "big") % self.p
        return pow(h, (self.p - 1) // self.q, self.p)

    def arbitrary(self, seed):
        e = self.arbitrary_raw(seed)
        if e == 0 or e == 1:
            raise Degenerate("construction yields %d for seed %r" % (e, seed))
        return e

    def sample_scalar(self, stream):
        """reference rejection sampler: stream(n) -> n bytes; returns (scalar, draws)"""
        nbits = self.q.bit_length() or 1
        nb = nbytes(self.q)
        mask = (1 << nbits) - 1
        draws = 0
        while True:
            c = int.from_bytes(stream(nb), "big") & mask
            draws += 1
            if c < self.q:
                return c, draws

    def entropy_for_scalar(self, x):
        return [x.to_bytes(self.ssize, "big")]

    # -- small-group enumeration
    def elements(self):
        out, x = [], 1
        for _ in range(self.q):
            out.append(x)
            x = x * self.g % self.p
        return out

    def dlog(self, e):
        if self._dlog is None:
            self._dlog = {v: k for k, v in enumerate(self.elements())}
        return self._dlog.get(e)

    def describe(self):
        return {"kind": "int", "p": self.p, "q": self.q, "g": self.g}
