"""Reference SPAKE2, written from the statement of C03 over the reference groups.
Elements are reference elements (ints / affine tuples); nothing is imported from the
library."""
import hashlib
from .intgroup import Degenerate


def sha(b):
    return hashlib.sha256(b).digest()


class RefParams:
    """group + the three blinding elements.  Elements come from the published seed
    construction, or are given directly (known-dlog parameter sets built through the
    wrapper group)."""

    def __init__(self, G, M=b"M", N=b"N", S=b"symmetric", elems=None):
        self.G = G
        self.seeds = (M, N, S)
        if elems is not None:
            self.M, self.N, self.S = elems
        else:
            self.M, self.N, self.S = G.arbitrary(M), G.arbitrary(N), G.arbitrary(S)

    def blind(self, side):
        return {"A": self.M, "B": self.N, "S": self.S}[side]

    def unblind(self, side):
        return {"A": self.N, "B": self.M, "S": self.S}[side]

    def fingerprint(self, side):
        G = self.G
        pieces = [G.enc(G.arbitrary_raw(b"") if G.kind == "int" else G.arbitrary(b"")),
                  G.scalar_enc(G.pw_scalar(b""))]
        if side == "S":
            pieces.append(G.enc(self.S))
        else:
            pieces += [G.enc(self.M), G.enc(self.N)]
        return hashlib.sha256(b"".join(pieces)).hexdigest()


class Reject(Exception):
    def __init__(self, reason):
        Exception.__init__(self, reason)
        self.reason = reason


def payload(P, side, w, x):
    G = P.G
    return G.enc(G.add(G.mul(G.base(), x), G.mul(P.blind(side), w)))


def message(P, side, w, x):
    return side.encode("ascii") + payload(P, side, w, x)


def transcript_key(side, pw, ids, mine, theirs, K):
    if side == "A":
        return sha(sha(pw) + sha(ids[0]) + sha(ids[1]) + mine + theirs + K)
    if side == "B":
        return sha(sha(pw) + sha(ids[0]) + sha(ids[1]) + theirs + mine + K)
    a, b = (mine, theirs) if mine <= theirs else (theirs, mine)
    return sha(sha(pw) + sha(ids[0]) + a + b + K)


def side_outcome(side, inbound):
    """what the statement of C06 says about the label of an inbound message:
    'accept', 'OffSides' (must be exactly this), or 'refuse' (any exception)"""
    lab = inbound[0:1]
    if side in ("A", "B"):
        if lab == side.encode():
            return "OffSides"
        if lab in (b"A", b"B"):
            return "accept"
        return "refuse"
    if lab in (b"A", b"B"):
        return "OffSides"
    if lab == b"S":
        return "accept"
    return "refuse"


def key_from_payload(P, side, pw, w, ids, x, inbound_payload):
    """key bytes for a peer payload (label already accepted), or raise Reject"""
    G = P.G
    Y = G.dec_strict(inbound_payload)
    if Y is None:
        raise Reject("undecodable")
    mine = payload(P, side, w, x)
    if inbound_payload == mine:
        raise Reject("reflection")
    K = G.mul(G.add(Y, G.mul(P.unblind(side), -w)), x)
    return transcript_key(side, pw, ids, mine, inbound_payload, G.enc(K))


def finish(P, side, pw, w, ids, x, inbound):
    """('key', bytes) | ('refuse', reason)"""
    so = side_outcome(side, inbound)
    if so != "accept":
        return ("refuse", so)
    try:
        return ("key", key_from_payload(P, side, pw, w, ids, x, inbound[1:]))
    except Reject as r:
        return ("refuse", r.reason)
