"""Loader of the TLC-generated state graph of models/Lifecycle.tla (the specification
automaton of C07).  The automaton is not re-implemented by hand: TLC checks the invariants
on the model and dumps the labelled graph; this module parses the dump."""
import hashlib, os, re, subprocess, shutil, tempfile

ROOT = os.path.dirname(os.path.dirname(os.path.dirname(os.path.abspath(__file__))))
MODELS = os.path.join(ROOT, "models")
BUILD = os.path.join(ROOT, "build")
VARS = ("phase", "restored", "keyOut", "finTried", "msgs", "keys", "touched")


class ModelError(Exception):
    pass


def spec_hash():
    h = hashlib.sha256()
    for f in ("Lifecycle.tla", "Lifecycle.cfg"):
        h.update(open(os.path.join(MODELS, f), "rb").read())
    return h.hexdigest()[:16]


def run_tlc(out_dot):
    md = tempfile.mkdtemp(prefix="tlc-lifecycle-")
    try:
        for f in ("Lifecycle.tla", "Lifecycle.cfg"):
            shutil.copy(os.path.join(MODELS, f), md)
        dot = os.path.join(md, "out.dot")
        p = subprocess.run(["tlc", "-workers", "1", "-noGenerateSpecTE", "-deadlock", "-metadir", os.path.join(md, "meta"),
                            "-dump", "dot,actionlabels", dot, "Lifecycle.tla"], cwd=md, capture_output=True, text=True, timeout=300)
        log = p.stdout + p.stderr
        if "No error has been found" not in log:
            raise ModelError("TLC did not verify the model:\n" + log[-2000:])
        m = re.search(r"(\d+) states generated, (\d+) distinct states found", log)
        os.makedirs(os.path.dirname(out_dot), exist_ok=True)
        shutil.copy(dot, out_dot)
        with open(out_dot + ".log", "w") as f:
            f.write(log)
        return {"tlc": "ran", "generated": int(m.group(1)) if m else None, "distinct": int(m.group(2)) if m else None}
    finally:
        shutil.rmtree(md, ignore_errors=True)


def _parse_val(v):
    v = v.strip()
    if v in ("TRUE", "FALSE"):
        return v == "TRUE"
    if v.startswith('"') or v.startswith('\\"'):
        return v.strip('\\"')
    return int(v)


def parse_dot(path):
    nodes, edges = {}, []
    for line in open(path):
        line = line.strip()
        m = re.match(r'^(-?\d+) -> (-?\d+) \[label="([^"]*)"', line)
        if m:
            edges.append((m.group(1), m.group(2), m.group(3)))
            continue
        m = re.match(r'^(-?\d+) \[label="((?:[^"\\]|\\.)*)"', line)
        if m:
            st = {}
            for part in m.group(2).split("\\n"):
                mm = re.match(r'^/\\\\ (\w+) = (.*)$', part)
                if mm:
                    st[mm.group(1)] = _parse_val(mm.group(2))
            nodes[m.group(1)] = tuple(st[v] for v in VARS)
    return nodes, edges


def load():
    """returns dict(init, states, edges{(state, action): next}, actions, info)"""
    h = spec_hash()
    cached = os.path.join(BUILD, "lifecycle-%s.dot" % h)
    committed = os.path.join(MODELS, "Lifecycle.dot")
    info = {"spec_hash": h}
    if os.path.exists(cached):
        info["tlc"] = "cached graph (build/)"
        path = cached
    else:
        try:
            info.update(run_tlc(cached))
            path = cached
        except ModelError:
            raise
        except Exception as e:
            # TLC unavailable: fall back to the committed dump if it belongs to this spec
            sha = committed + ".spec"
            if os.path.exists(committed) and os.path.exists(sha) and open(sha).read().strip() == h:
                info["tlc"] = "TLC failed to start (%s); committed graph used" % type(e).__name__
                path = committed
            else:
                raise ModelError("TLC unavailable and no matching committed graph: %s" % e)
    nodes, edges = parse_dot(path)
    if not nodes:
        raise ModelError("empty TLC graph")
    E = {}
    for a, b, lab in edges:
        k = (nodes[a], lab)
        if k in E and E[k] != nodes[b]:
            raise ModelError("specification automaton is not deterministic per action label: %s" % (k,))
        E[k] = nodes[b]
    init = ("Fresh", False, 0, False, 0, 0, False)
    if init not in nodes.values():
        raise ModelError("initial state missing from the TLC graph")
    info["model_states"] = len(set(nodes.values()))
    info["model_edges"] = len(E)
    return {"init": init, "states": set(nodes.values()), "edges": E, "actions": sorted({l for _, _, l in edges}), "info": info}
