"""One-off: multiples k of the generator of each shipped group whose ENCODING falls into a rare structural class
(1/256 .. 1/500000): leading / trailing zero bytes, most significant bytes equal to those of the field modulus, combined with
the least significant byte at/above or below the modulus's.  Computed with the reference arithmetic only (facts about the
published groups, independent of the tree); stored in mc/ref/rare_multiples.json and re-verified when loaded."""
import sys, os, json, time
sys.path.insert(0, os.path.dirname(os.path.dirname(os.path.abspath(__file__))))
from mc import target as T

LIMIT = {"ParamsEd25519": 2500000, "Params1024": 1500000, "Params2048": 1500000, "Params3072": 1500000}
out = {}
for name in T.SHIPPED:
    R = T.ref_shipped_group(name)
    n = R.esize
    if R.kind == "int":
        pm = R.p.to_bytes(n, "big")
        msb = lambda b, i: b[i]            # i-th most significant byte
        lsb = lambda b: b[-1]
        mod_msb = lambda i: pm[i]
        mod_lsb = pm[-1]
    else:
        qm = R.Q.to_bytes(32, "little")
        msb = lambda b, i: (b[31 - i] & 0x7f) if i == 0 else b[31 - i]
        lsb = lambda b: b[0]
        mod_msb = lambda i: (qm[31 - i] & 0x7f) if i == 0 else qm[31 - i]
        mod_lsb = qm[0]
    want = ["lead00x1", "lead00x2", "trail00x1", "trail00x2", "prefix1", "prefix2", "prefix1+low>=", "prefix1+low<", "prefix2+low>=", "prefix2+low<",
            "leadffx1", "trailffx2"]
    found = {}
    e = R.base()
    t0 = time.time()
    for k in range(1, LIMIT[name]):
        b = R.enc(e)
        m0, m1 = msb(b, 0), msb(b, 1)
        c = []
        if m0 == 0:
            c.append("lead00x1")
            if m1 == 0:
                c.append("lead00x2")
        if lsb(b) == 0:
            c.append("trail00x1")
            if (b[-2] if R.kind == "int" else b[1]) == 0:
                c.append("trail00x2")
        if lsb(b) == 0xff and (b[-2] if R.kind == "int" else b[1]) == 0xff:
            c.append("trailffx2")
        if m0 == 0xff or (R.kind != "int" and m0 == 0x7f):
            c.append("leadffx1")
        if m0 == mod_msb(0):
            c.append("prefix1")
            c.append("prefix1+low>=" if lsb(b) >= mod_lsb else "prefix1+low<")
            if m1 == mod_msb(1):
                c.append("prefix2")
                c.append("prefix2+low>=" if lsb(b) >= mod_lsb else "prefix2+low<")
        for x in c:
            if x not in found:
                found[x] = k
        if all(w in found for w in want if not (w == "leadffx1" and R.kind == "int" and pm[0] != 0xff)):
            break
        e = R.add(e, R.base())
    out[name] = {"classes": {k: str(v) for k, v in sorted(found.items())}, "steps": k, "seconds": round(time.time() - t0, 1)}
    print(name, out[name], flush=True)
path = os.path.join(os.path.dirname(os.path.dirname(os.path.abspath(__file__))), "mc", "ref", "rare_multiples.json")
json.dump(out, open(path, "w"), indent=1, sort_keys=True)
print("wrote", path)
