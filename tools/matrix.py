"""detection matrix (markdown) from mutants/results/*.json"""
import json, glob, os, sys
ROOT = os.path.dirname(os.path.dirname(os.path.abspath(__file__)))
rows = []
for f in sorted(glob.glob(os.path.join(ROOT, "mutants", "results", "*.quick.json"))):
    name = os.path.basename(f)[:-len(".quick.json")]
    r = json.load(open(f))
    if "checks" not in r:
        continue
    fired = sorted(p for p, v in r["checks"].items() if v["rc"] == 1)
    silent = sorted(p for p, v in r["checks"].items() if v["rc"] == 0)
    other = sorted(p for p, v in r["checks"].items() if v["rc"] not in (0, 1))
    rows.append((name, r.get("expect", []), fired, len(silent), other, r.get("suite_passes")))
print("| change | breaks (intended) | checks that report it | checks run and silent | suite |")
print("|---|---|---|---|---|")
for name, exp, fired, ns, other, ok in rows:
    print("| `%s` | %s | %s | %d%s | %s |" % (name, ", ".join(exp) or "nothing (benign)", ", ".join(fired) or "—", ns, (" (harness error: %s)" % ",".join(other)) if other else "", "43 passed" if ok else "FAILS"))
