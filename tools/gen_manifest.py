"""writes MANIFEST.json from the table below (kept in one place so it is always valid)"""
import json, os, sys
ROOT = os.path.dirname(os.path.dirname(os.path.abspath(__file__)))
sys.path.insert(0, ROOT)
PY = "/venv/bin/python -m mc.runner"

CHECKS = {}
NOT_YET = {}


def check(pid, cat, text, note, technique, ref):
    CHECKS[pid] = {
        "property_id": pid,
        "quick_cmd": "%s %s --tier quick" % (PY, pid),
        "thorough_cmd": "%s %s --tier thorough" % (PY, pid),
        "evidence_file": "/verif/evidence/%s.json" % pid,
        "replay_cmd_template": PY + " --replay {path}",
        "engine": "mc",
        "level_claimed": {"category": cat, "text": text, "design_ref": ref},
        "level_note": note,
        "technique": technique,
    }


exec(open(os.path.join(ROOT, "tools", "manifest_table.py")).read())

props = [json.loads(l)["id"] for l in open(os.path.join(ROOT, "properties.jsonl"))]
man = {
    "version": 1,
    "setup_cmd": "cd /verif && /venv/bin/python -m mc.selftest",
    "hooks": {"guard": "SPAKE2_VERIF", "enable": "no source hooks are needed: every seam is public API, harness-side module patching or sys.settrace",
              "baseline_off_cmd": "cd /repo && /venv/bin/python -m pytest -ra -q -p no:cacheprovider --timeout=900 --continue-on-collection-errors",
              "source_commits": [], "add_only": True},
    "engines": [{"name": "mc", "path": "/verif/mc", "serves_properties": sorted(CHECKS),
                 "kind_free_text": "hand-written explicit-state / exhaustive-enumeration explorer over the real library objects on small group instances, "
                                   "reference models in mc/ref, TLC-generated specification automaton for C07, settrace thread-schedule explorer for C16"}],
    "checks": [CHECKS[p] for p in props if p in CHECKS],
    "not_applicable": [{"property_id": p, "reason": NOT_YET.get(p, "check not built yet (work in progress)")} for p in props if p not in CHECKS],
    "notes": "see DESIGN.md; VERIF_REPO overrides /repo for experiments on scratch copies",
}
json.dump(man, open(os.path.join(ROOT, "MANIFEST.json"), "w"), indent=1)
print("checks:", len(man["checks"]), "not_applicable:", len(man["not_applicable"]))
