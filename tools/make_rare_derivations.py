"""One-off: passwords / seeds whose HKDF expansion (the input of password_to_scalar / arbitrary_element) falls into a rare
structural class (leading and/or trailing zero or ff octets), and Ed25519 seeds whose try-and-increment search crosses a 2^8 /
2^16 boundary of y.  Found with the reference HKDF / reference curve only; stored in mc/ref/rare_derivations.json."""
import sys, os, json
sys.path.insert(0, os.path.dirname(os.path.dirname(os.path.abspath(__file__))))
from mc.ref.hkdf import hkdf
from mc.ref.edwards import RefEdwards

out = {"pw": {}, "seed": {}, "ed_carry": {}}
classes = {
    "lead00": lambda b: b[0] == 0, "trail00": lambda b: b[-1] == 0, "lead00+trail00": lambda b: b[0] == 0 and b[-1] == 0,
    "lead00x2": lambda b: b[0] == 0 and b[1] == 0, "trail00x2": lambda b: b[-1] == 0 and b[-2] == 0,
    "leadff": lambda b: b[0] == 0xff, "trailff": lambda b: b[-1] == 0xff, "leadff+trailff": lambda b: b[0] == 0xff and b[-1] == 0xff,
    "lead00+trailff": lambda b: b[0] == 0 and b[-1] == 0xff, "lead80": lambda b: b[0] == 0x80,
}
for kind, info, lens, fmt in (("pw", b"SPAKE2 pw", (17, 18, 36, 44, 48), "password-%d"), ("seed", b"SPAKE2 arbitrary element", (1, 2, 32, 48, 128, 256, 384), "seed-%d")):
    for n in lens:
        found = {}
        for i in range(400000):
            s = (fmt % i).encode()
            b = hkdf(s, n, info)
            for c, f in classes.items():
                if c not in found and len(b) >= 2 and f(b):
                    found[c] = s.decode()
                elif c not in found and len(b) == 1 and c in ("lead00", "leadff", "lead80") and f(b + b):
                    found[c] = s.decode()
            if len(found) == len(classes) or (n == 1 and len(found) >= 3):
                break
        out[kind][str(n)] = found
        print(kind, n, len(found), i, flush=True)
E = RefEdwards()
found = {}
for i in range(600000):
    s = b"seed-%d" % i
    y0 = int.from_bytes(hkdf(s, 48, b"SPAKE2 arbitrary element"), "big") % E.Q
    lo8, lo16 = y0 & 0xff, y0 & 0xffff
    if lo8 < 0xf0 and not (lo16 >= 0xfff0):
        continue
    _, plus = E.arbitrary_trace(s)
    if lo8 + plus > 0xff and "carry8" not in found:
        found["carry8"] = s.decode()
    if lo16 + plus > 0xffff and "carry16" not in found:
        found["carry16"] = s.decode()
    if len(found) == 2:
        break
out["ed_carry"] = found
print("ed_carry", found, i)
path = os.path.join(os.path.dirname(os.path.dirname(os.path.abspath(__file__))), "mc", "ref", "rare_derivations.json")
json.dump(out, open(path, "w"), indent=1, sort_keys=True)
print("wrote", path)
