"""run every check of MANIFEST.json (quick by default), validate MANIFEST/evidence against the schemas where jsonschema is
available (python3-vt), print a one-line summary per check.  usage: python tools/run_all.py [quick|thorough] [seed]"""
import json, os, subprocess, sys, time
ROOT = os.path.dirname(os.path.dirname(os.path.abspath(__file__)))
tier = sys.argv[1] if len(sys.argv) > 1 else "quick"
seed = sys.argv[2] if len(sys.argv) > 2 else "0"
man = json.load(open(os.path.join(ROOT, "MANIFEST.json")))
bad = 0
for c in man["checks"]:
    cmd = c["quick_cmd"] if tier == "quick" else c.get("thorough_cmd", c["quick_cmd"])
    t = time.time()
    p = subprocess.run(cmd, shell=True, cwd=ROOT, capture_output=True, text=True, env=dict(os.environ, VERIF_SEED=seed))
    dt = time.time() - t
    lines = [l for l in p.stdout.splitlines() if l.startswith(("VIOLATION", "KNOWN-FINDING", "HARNESS", "EVIDENCE-PROBLEM"))]
    deg = [l for l in p.stdout.splitlines() if "degraded=[" in l]
    print("%s %s seed=%s rc=%d %.1fs %s %s" % (c["property_id"], tier, seed, p.returncode, dt, "DEGRADED" if deg else "", " | ".join(lines)[:200]), flush=True)
    bad += p.returncode != 0
v = subprocess.run(["python3-vt", "-c", """
import json, jsonschema, glob
jsonschema.validate(json.load(open('%s/MANIFEST.json')), json.load(open('/root/.vp/MANIFEST.schema.json')))
sch = json.load(open('/root/.vp/EVIDENCE.schema.json'))
n = 0
for f in sorted(glob.glob('%s/evidence/*.json')):
    jsonschema.validate(json.load(open(f)), sch); n += 1
print('schemas ok:', n, 'evidence files')
""" % (ROOT, ROOT)], capture_output=True, text=True)
print(v.stdout.strip() or v.stderr.strip()[-300:])
sys.exit(1 if bad else 0)
