"""One-off generator of mc/ref/golden.json.  Run against the PINNED tree only.  Every value
is computed by the reference model and asserted equal to what the tree produces (and, where
the repository publishes vectors, to those); integer-group constants are taken from the tree
and checked to be the FIPS 186 construction g = 2^((p-1)/q) mod p over primes p, q."""
import sys, json, hashlib, os
sys.path.insert(0, os.path.dirname(os.path.dirname(os.path.abspath(__file__))))
from mc import target as T
from mc.ref import numth, spake2 as RS, statefmt
from mc.ref.intgroup import RefIntGroup
from mc.ref.edwards import RefEdwards
from mc.ref.spake2 import RefParams

L = T.lib()
data = {"groups": {}, "MNS": {}, "vectors": []}
for name, grp in (("Params1024", L.groups.I1024), ("Params2048", L.groups.I2048), ("Params3072", L.groups.I3072)):
    p, q, g = grp.p, grp.q, grp.Base._e
    assert numth.is_prime(p) and numth.is_prime(q) and (p - 1) % q == 0
    assert g == pow(2, (p - 1) // q, p) and g != 1 and pow(g, q, p) == 1
    data["groups"][name] = {"p": "%x" % p, "q": "%x" % q, "g": "%x" % g}
refs = {"ParamsEd25519": RefEdwards()}
for n, c in data["groups"].items():
    refs[n] = RefIntGroup(int(c["p"], 16), int(c["q"], 16), int(c["g"], 16))
E = refs["ParamsEd25519"]
data["ed25519"] = {"Q": str(E.Q), "L": str(E.L), "d": str(E.d), "Bx": str(E.B[0]), "By": str(E.B[1]),
                   "B": E.enc(E.B).hex()}
assert L.eb.Q == E.Q and L.eb.L == E.L and L.eb.d % E.Q == E.d and L.eb.B == list(E.B)
# published vectors of the repository (test_compat.py) pin these
# published vectors of the repository (test_compat.py): the reference must reproduce them
PUB = {"pw": b"password",
       "w": 3515301705789368674385125653994241092664323519848410154015274772661223168839,
       "xA": 2611694063369306139794446498317402240796898290761098242657700742213257926693,
       "xB": 7002393159576182977806091886122272758628412261510164356026361256515836884383,
       "mA": "416fc960df73c9cf8ed7198b0c9534e2e96a5984bfc5edc023fd24dacf371f2af9",
       "mB": "42354e97b88406922b1df4bea1d7870f17aed3dba7c720b313edae315b00959309",
       "k": "a480bca13fa04464bb644f10e340125e96c9494f7399fef7c2bda67eb0fdf06d"}
rpE = RefParams(E)
assert E.pw_scalar(PUB["pw"]) == PUB["w"]
assert RS.message(rpE, "A", PUB["w"], PUB["xA"]).hex() == PUB["mA"]
assert RS.message(rpE, "B", PUB["w"], PUB["xB"]).hex() == PUB["mB"]
assert RS.finish(rpE, "A", PUB["pw"], PUB["w"], (b"", b""), PUB["xA"], bytes.fromhex(PUB["mB"])) == ("key", bytes.fromhex(PUB["k"]))
assert RS.finish(rpE, "B", PUB["pw"], PUB["w"], (b"", b""), PUB["xB"], bytes.fromhex(PUB["mA"])) == ("key", bytes.fromhex(PUB["k"]))
SYM = ("5308f692d38c4034ad6e2e1054c469ca1dbe990bcaec4bbd3ad78c7d968eadd0b3",
       "5329e2d5f9b7a53e609204115c6458921b0bb27419ce82a27679fc5961002897df",
       "9c4fccaa3f0740615cee6fd10ed5d3a311b91b5bdc65f53e4ea7cb2fe8aa96eb")
# symmetric vector: scalars are not published; recover them from the PRG the test uses
from spake2.test.common import PRG
x1 = int.from_bytes(PRG(b"1")(64), "big") % E.L
x2 = int.from_bytes(PRG(b"2")(64), "big") % E.L
assert RS.message(rpE, "S", PUB["w"], x1).hex() == SYM[0] and RS.message(rpE, "S", PUB["w"], x2).hex() == SYM[1]
assert RS.finish(rpE, "S", PUB["pw"], PUB["w"], (b"",), x1, bytes.fromhex(SYM[1])) == ("key", bytes.fromhex(SYM[2]))
P2S = [("Params1024", "7077", "28f73d0d793a38cb21694b751cd0affb181474be"),
       ("Params1024", "0001feff", "37044fd99e0499af9b263a21e13dd737b7b022bf"),
       ("Params2048", "7077", "56db566c2740f46557d8c3695a5eb6fb736797b63f98c58931267ae6"),
       ("Params3072", "0001feff", "a1b0ffda72070f4d1bc565933904fb92307b40bc2d32ad1394eea3598128ba9a"),
       ("ParamsEd25519", "7077", "cf090b60384cb818b12c8d972dfbaf910c0c7295c5cfe560e508f5f062f3960f"),
       ("ParamsEd25519", "0001feff", "e86622bb57ea0f6f9f963354f2973a43a9e981901a478e6478682374441b0c04")]
for n, pwh, sh in P2S:
    R = refs[n]
    assert R.scalar_enc(R.pw_scalar(bytes.fromhex(pwh))).hex() == sh, n
AE = [("ParamsEd25519", "41", "4637592ae2914247de5804be805867266ccac99c635df8077dcdc1d72becf354"),
      ("ParamsEd25519", "42", "88228ee4046ba5d5fa2f23a0480a99efb1a9554ce50153d69330928215d50775"),
      ("Params1024", "41", "933084f15747174af82ece8ba242f83e38db4a64b8887f9ef275c318ae0b0f4338e9fafc6ff601d1b0f8b3dfe63bbaf774117c820abb16f5d054833e897647813083d2bed14c88d54717e2b5e9d161bc87fd0265c2d10002a6ac14fadf8da81fd3710c1d179c7247ffecc148f764d0a19c9319c698aa553dd825ae4112e6128d")]
for n, seedh, eh in AE:
    R = refs[n]
    assert R.enc(R.arbitrary(bytes.fromhex(seedh))).hex() == eh, n
data["published"] = {"asym": {k: (v.hex() if isinstance(v, bytes) else str(v)) for k, v in PUB.items()}, "sym": list(SYM),
                     "p2s": [list(t) for t in P2S], "ae": [list(t) for t in AE]}
for name in T.SHIPPED:
    R = refs[name]
    P = getattr(L.pall, name)
    rp = RefParams(R)
    mns = {"M": R.enc(rp.M).hex(), "N": R.enc(rp.N).hex(), "S": R.enc(rp.S).hex()}
    assert mns == {"M": P.M.to_bytes().hex(), "N": P.N.to_bytes().hex(), "S": P.S.to_bytes().hex()}, name
    assert (P.M_str, P.N_str, P.S_str) == (b"M", b"N", b"symmetric")
    data["MNS"][name] = mns
    q = R.q
    for side in "ABS":
        for pw, ids in ((b"password", (b"", b"")), (b"pw\x00\xff" + b"x" * 70, (b"idA", b"idB-longer"))):
            if side == "S":
                ids = (ids[0],)
            x = (q // 3 + 12345) % q
            y = (q // 7 + 999) % q
            w = R.pw_scalar(pw)
            peer = {"A": "B", "B": "A", "S": "S"}[side]
            msg = RS.message(rp, side, w, x)
            inbound = RS.message(rp, peer, w, y)
            kind, key = RS.finish(rp, side, pw, w, ids, x, inbound)
            assert kind == "key"
            # tree, fresh
            ent = T.Script(R.entropy_for_scalar(x))
            if side == "S":
                o = L.S(pw, idSymmetric=ids[0], params=P, entropy_f=ent)
            else:
                o = L.cls[side](pw, idA=ids[0], idB=ids[1], params=P, entropy_f=ent)
            assert o.start() == msg, (name, side)
            blob = o.serialize()
            o2 = L.cls[side].from_serialized(blob, params=P)
            assert o.finish(inbound) == key and o2.finish(inbound) == key
            sd = statefmt.state_dict(rp, side, pw, ids, x)
            assert json.loads(blob.decode()) == sd
            data["vectors"].append({"set": name, "side": side, "pw": pw.hex(), "ids": [i.hex() for i in ids],
                                    "x": str(x), "inbound": inbound.hex(), "msg": msg.hex(), "key": key.hex(),
                                    "state": blob.decode("ascii")})
body = json.dumps(data, sort_keys=True).encode()
out = {"sha256": hashlib.sha256(body).hexdigest(), "data": data}
path = os.path.join(os.path.dirname(os.path.dirname(os.path.abspath(__file__))), "mc", "ref", "golden.json")
json.dump(out, open(path, "w"), indent=1, sort_keys=True)
print("wrote", path, len(data["vectors"]), "vectors")
