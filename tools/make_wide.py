"""Generate (deterministically) and freeze unusual-but-valid integer groups: mc/ref/wide_groups.json.
W320: Schnorr group with a 200-bit order in a 320-bit field (order much longer than the 'comparable strength' of the modulus);
W256s: safe-prime group p = 2q+1 of 256 bits; W521: 521-bit field (not a whole number of bytes) with a 163-bit order (also not
byte aligned).  Primality: mc.ref.numth.is_prime (Miller-Rabin on fixed bases + strong Lucas)."""
import json, os, sys, hashlib
sys.path.insert(0, os.path.dirname(os.path.dirname(os.path.abspath(__file__))))
from mc.ref import numth


def stream(tag, bits):
    c = 0
    while True:
        out = b""
        i = 0
        while len(out) * 8 < bits:
            out += hashlib.sha256(b"%s/%d/%d" % (tag, c, i)).digest()
            i += 1
        v = int.from_bytes(out, "big") >> (len(out) * 8 - bits)
        yield v | (1 << (bits - 1)) | 1
        c += 1


def schnorr(tag, pbits, qbits):
    for q in stream(tag + b"/q", qbits):
        if numth.is_prime(q):
            break
    for v in stream(tag + b"/p", pbits):
        k = v // q
        k += k & 1          # even cofactor
        p = q * k + 1
        if p.bit_length() == pbits and numth.is_prime(p):
            break
    h = 2
    while pow(h, (p - 1) // q, p) == 1:
        h += 1
    return {"p": str(p), "q": str(q), "g": str(pow(h, (p - 1) // q, p))}


def safe(tag, pbits):
    for q in stream(tag + b"/q", pbits - 1):
        if q % 3 == 2 and numth.is_prime(q) and numth.is_prime(2 * q + 1):
            p = 2 * q + 1
            return {"p": str(p), "q": str(q), "g": "4"}


out = {"W320": schnorr(b"W320", 320, 200), "W256s": safe(b"W256s", 256), "W521": schnorr(b"W521", 521, 163)}
for k, v in out.items():
    p, q, g = int(v["p"]), int(v["q"]), int(v["g"])
    assert numth.is_prime(p) and numth.is_prime(q) and (p - 1) % q == 0 and g != 1 and pow(g, q, p) == 1, k
    print(k, p.bit_length(), q.bit_length())
json.dump(out, open(os.path.join(os.path.dirname(os.path.dirname(os.path.abspath(__file__))), "mc", "ref", "wide_groups.json"), "w"), indent=1)
