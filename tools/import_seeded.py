"""Confirm and import sub-agent seeded defects: for /tmp/sa/<Cnn>/out/patch{A,B}.diff run, in the agent's scratch worktree,
(1) the unedited test-suite with the patch (must be 43 passed), (2) the demo with the patch (must exit 1), (3) the demo
without it (must exit 0); then store /verif/seeded/<Cnn>-<A|B>/{patch.diff,demo.py,notes.md,meta.json}."""
import os, subprocess, sys, json, shutil, glob

ROOT = os.path.dirname(os.path.dirname(os.path.abspath(__file__)))
PY = "/venv/bin/python"


def sh(cmd, cwd, env=None, timeout=900):
    e = dict(os.environ, PYTHONDONTWRITEBYTECODE="1")
    if env:
        e.update(env)
    p = subprocess.run(cmd, cwd=cwd, capture_output=True, text=True, env=e, timeout=timeout)
    return p.returncode, (p.stdout + p.stderr)


def main():
    # usage: import_seeded.py [--base /tmp/sb --rename AB=CD] [Cnn ...]
    args = sys.argv[1:]
    base, ren = "/tmp/sa", {"A": "A", "B": "B"}
    while args and args[0].startswith("--"):
        if args[0] == "--base":
            base = args[1]
        elif args[0] == "--rename":
            a, b = args[1].split("=")
            ren = dict(zip(a, b))
        args = args[2:]
    ids = args or sorted(os.path.basename(os.path.dirname(os.path.dirname(p))) for p in glob.glob(base + "/C*/out/patchA.diff"))
    for cid in ids:
        wt = base + "/" + cid
        for ab in "AB":
            patch = "%s/out/patch%s.diff" % (wt, ab)
            demo = "%s/out/demo%s.py" % (wt, ab)
            notes = "%s/out/notes%s.md" % (wt, ab)
            if not (os.path.exists(patch) and os.path.exists(demo)):
                print(cid, ab, "missing files")
                continue
            name = "%s-%s" % (cid, ren[ab])
            sh(["git", "checkout", "--", "."], wt)
            rc, out = sh(["git", "status", "--short"], wt)
            dirty = [l for l in out.splitlines() if not l.endswith("out/")]
            env = {"PYTHONPATH": wt + "/src"}
            rc0, o0 = sh(["timeout", "600", PY, demo], wt, env)
            rc, o = sh(["git", "apply", patch], wt)
            if rc:
                print(name, "patch does not apply:", o[-200:])
                continue
            rcs, os_ = sh(["timeout", "600", PY, "-m", "pytest", "-q", "-p", "no:cacheprovider", "src/spake2"], wt, env)
            suite_last = [l for l in os_.splitlines() if l.strip()][-1] if os_.strip() else ""
            rc1, o1 = sh(["timeout", "600", PY, demo], wt, env)
            sh(["git", "checkout", "--", "."], wt)
            ok = (rc0 == 0 and rc1 == 1 and "43 passed" in suite_last and not dirty)
            meta = {"id": name, "breaks": [cid], "source": "independent sub-agent given only the property text and a scratch worktree",
                    "confirmed": {"suite_with_patch": suite_last, "demo_with_patch_exit": rc1, "demo_with_patch_last": (o1.strip().splitlines() or [""])[-1][:300],
                                  "demo_without_patch_exit": rc0, "worktree": wt},
                    "needs": (open(notes).read()[:1500] if os.path.exists(notes) else ""), "admitted": ok}
            print("%-8s admitted=%s suite=%s demo_with=%d demo_without=%d" % (name, ok, suite_last[:30], rc1, rc0))
            d = os.path.join(ROOT, "seeded", name)
            os.makedirs(d, exist_ok=True)
            shutil.copy(patch, os.path.join(d, "patch.diff"))
            shutil.copy(demo, os.path.join(d, "demo.py"))
            if os.path.exists(notes):
                shutil.copy(notes, os.path.join(d, "notes.md"))
            json.dump(meta, open(os.path.join(d, "meta.json"), "w"), indent=1)


if __name__ == "__main__":
    main()
