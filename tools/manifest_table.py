check("C15", "model_checking",
      "complete enumeration of all (n, maxval) below 2^9 (quick) / 2^12 (thorough) and of every scalar and element of the small groups through the real codec functions, compared with int.to_bytes/from_bytes; width boundaries up to 3072 bits and edge values on the shipped groups",
      "trusted: CPython int.to_bytes/from_bytes; shipped groups are covered on edge classes, not on all scalars", "exhaustive bounded input enumeration on the real code vs reference codec", "5 C15")
check("C17", "model_checking",
      "all 6-/5-tuples over a 7-string alphabet (117649 + 16807 calls) through the two real finalize functions against the formula, swap invariance on every tuple, fixed-width collision tables",
      "trusted: hashlib.sha256; byte strings outside the alphabet are covered by the structured extras only", "exhaustive bounded input enumeration on the real code vs formula", "5 C17")
check("C05", "model_checking",
      "every byte string of length 0..2 (quick) / 0..3 (thorough) through the real decoder of every 1-byte-element integer toy group, every raw-y/sign/length combination in the window where lax and strict decoders differ on toy twisted-Edwards curves running the library's own code, constructed classes on the four shipped groups; each compared with an independent strict decoder, and pushed through finish() on started sessions",
      "trusted: reference strict decoders; toy curves are the library's ed25519_basic.py re-parametrised through its module globals (guarded by a scan for inlined constants); on shipped groups only constructed classes, not all strings", "exhaustive input enumeration on small instances of the real code vs reference decoder", "5 C05")
check("C13", "model_checking",
      "fixpoint closure of element representations (type, encoding) under the public element API on every small group, then all pairs / triples / scalars in [-q,2q] against Z_q through a discrete-log table; edge multiples of Base on the shipped groups against independent arithmetic",
      "trusted: reference arithmetic (modular ints, affine Edwards); associativity and two-scalar laws on a subset of elements when q > 40", "explicit-state closure + exhaustive law checking on small instances of the real code", "5 C13")
