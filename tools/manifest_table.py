check("C15", "model_checking",
      "complete enumeration of all (n, maxval) below 2^9 (quick) / 2^12 (thorough) and of every scalar and element of the small groups through the real codec functions, compared with int.to_bytes/from_bytes; width boundaries up to 3072 bits and edge values on the shipped groups",
      "trusted: CPython int.to_bytes/from_bytes; shipped groups are covered on edge classes, not on all scalars", "exhaustive bounded input enumeration on the real code vs reference codec", "5 C15")
check("C17", "model_checking",
      "all 6-/5-tuples over a 7-string alphabet (117649 + 16807 calls) through the two real finalize functions against the formula, swap invariance on every tuple, fixed-width collision tables",
      "trusted: hashlib.sha256; byte strings outside the alphabet are covered by the structured extras only", "exhaustive bounded input enumeration on the real code vs formula", "5 C17")
