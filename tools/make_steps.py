"""one-off: Ed25519 seeds whose try-and-increment search (reference implementation) needs exactly k increments, k = 0..20;
adds "ed_steps" to mc/ref/rare_derivations.json.  P(k) = 2^-(k+1): about 2^22 reference evaluations, split over 16 processes."""
import json, os, sys, multiprocessing
ROOT = os.path.dirname(os.path.dirname(os.path.abspath(__file__)))
sys.path.insert(0, ROOT)
from mc.ref.edwards import RefEdwards
from mc.ref.hkdf import hkdf

R = RefEdwards()
KMAX = 20


def steps(seed):
    Q = R.Q
    y0 = int.from_bytes(hkdf(seed, 48, b"SPAKE2 arbitrary element"), "big") % Q
    for plus in range(64):
        if R.x_from_y((y0 + plus) % Q, 0) is not None:
            return plus
    return None


def work(part):
    found = {}
    for n in range(part, 1 << 23, 16):
        seed = b"steps-%d" % n
        k = steps(seed)
        if k is not None and k <= KMAX and k not in found:
            found[k] = seed.decode()
        if n > (1 << 22) and len(found) > KMAX - 3:
            break
    return found


if __name__ == "__main__":
    with multiprocessing.Pool(16) as pool:
        res = pool.map(work, range(16))
    best = {}
    for f in res:
        for k, s in f.items():
            if k not in best or int(s.split("-")[1]) < int(best[k].split("-")[1]):
                best[k] = s
    # confirm with the full reference trace
    for k, s in sorted(best.items()):
        assert R.arbitrary_trace(s.encode())[1] == k, (k, s)
    p = os.path.join(ROOT, "mc", "ref", "rare_derivations.json")
    d = json.load(open(p))
    d["ed_steps"] = {str(k): best[k] for k in sorted(best)}
    json.dump(d, open(p, "w"), indent=1, sort_keys=True)
    print("step counts covered:", sorted(best))
