SPECIFICATION Spec
INVARIANT TypeOK
INVARIANT AtMostOneMessage
INVARIANT NoMessageRestored
INVARIANT AtMostOneKey
INVARIANT KeyNeedsStart
