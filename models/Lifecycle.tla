------------------------------ MODULE Lifecycle ------------------------------
(* Specification automaton for property C07 ("an instance is single-use over   *)
(* every call history").  One named action per (operation, outcome class).     *)
(* Deliberately PERMISSIVE: where the statement is silent every outcome that    *)
(* keeps the stated guarantees is allowed.  TLC (i) checks on this model that   *)
(* the automaton implies the statement (invariants below, unbounded histories)  *)
(* and (ii) dumps the labelled state graph, which mc/props/c07.py uses as the   *)
(* oracle for the product exploration of the real code.                        *)
EXTENDS Naturals

VARIABLES phase,      \* "Fresh" | "StartFailed" | "Started"   (current instance)
          restored,   \* current instance came out of from_serialized()
          keyOut,     \* 1 once finish() has returned a key on the current instance
          finTried,   \* a finish() was entered and raised
          msgs,       \* history counter: start() messages returned by the current instance
          keys,       \* history counter: keys returned by the current instance
          touched     \* an operation the statement does not name (a public method discovered on the class) was called

vars == <<phase, restored, keyOut, finTried, msgs, keys, touched>>

Init == /\ phase = "Fresh" /\ restored = FALSE /\ keyOut = 0 /\ finTried = FALSE
        /\ msgs = 0 /\ keys = 0 /\ touched = FALSE

Same == UNCHANGED vars

(* ---- start() with a working entropy function ---- *)
Start_Msg ==          \* required on a fresh instance; allowed after a failed start
    /\ phase \in {"Fresh", "StartFailed"} /\ ~restored
    /\ phase' = "Started" /\ msgs' = msgs + 1
    /\ UNCHANGED <<restored, keyOut, finTried, keys, touched>>
Start_OnceErr ==      \* required once started / restored; allowed after a failed start or an unnamed operation
    /\ (phase \in {"Started", "StartFailed"} \/ touched)
    /\ Same
Start_OtherErr ==     \* only a start that already failed (or an instance an unnamed operation touched) may fail otherwise
    /\ (phase = "StartFailed" \/ (touched /\ phase = "Fresh"))
    /\ Same

(* ---- start() while the entropy function raises ---- *)
StartRaise_OtherErr ==
    /\ phase \in {"Fresh", "StartFailed"}
    /\ phase' = "StartFailed"
    /\ UNCHANGED <<restored, keyOut, finTried, msgs, keys, touched>>
StartRaise_OnceErr ==
    /\ (phase \in {"Started", "StartFailed"} \/ touched)
    /\ Same

(* ---- finish(m), m a message for which the definition yields a key ---- *)
FinValid_Key ==
    /\ phase = "Started" /\ keyOut = 0
    /\ keyOut' = 1 /\ keys' = keys + 1
    /\ UNCHANGED <<phase, restored, finTried, msgs, touched>>
FinValid_OnceErr ==   \* required when a key is out; allowed whenever no key can be given
    /\ \/ keyOut = 1
       \/ phase # "Started"
       \/ finTried
       \/ touched
    /\ finTried' = (IF keyOut = 1 THEN finTried ELSE TRUE)
    /\ UNCHANGED <<phase, restored, keyOut, msgs, keys, touched>>
FinValid_OtherErr ==  \* never when a key is out (then OnlyCallFinishOnce is required)
    /\ keyOut = 0
    /\ finTried' = TRUE
    /\ UNCHANGED <<phase, restored, keyOut, msgs, keys, touched>>

(* ---- finish(m), m a message the definition refuses ---- *)
FinBad_OnceErr ==
    /\ \/ keyOut = 1
       \/ finTried
       \/ phase # "Started"
       \/ touched
    /\ finTried' = (IF keyOut = 1 THEN finTried ELSE TRUE)
    /\ UNCHANGED <<phase, restored, keyOut, msgs, keys, touched>>
FinBad_OtherErr ==
    /\ keyOut = 0
    /\ finTried' = TRUE
    /\ UNCHANGED <<phase, restored, keyOut, msgs, keys, touched>>

(* ---- serialize() ---- *)
Ser_TooEarly ==
    /\ (phase \in {"Fresh", "StartFailed"} \/ touched)
    /\ Same
Ser_Blob ==
    /\ phase \in {"Started", "StartFailed"}
    /\ Same
Ser_OtherErr ==
    /\ (phase = "StartFailed" \/ touched)
    /\ Same

(* ---- from_serialized(blob of the current instance), same class: continue on the result ---- *)
Restore_Inst ==
    /\ phase \in {"Started", "StartFailed"}
    /\ phase' = "Started" /\ restored' = TRUE /\ keyOut' = 0 /\ finTried' = FALSE
    /\ msgs' = 0 /\ keys' = 0 /\ touched' = FALSE
Restore_Err ==        \* only the state of a failed start (or of a touched instance) may be refused
    /\ (phase = "StartFailed" \/ touched)
    /\ Same

(* ---- from_serialized(blob) under another class: must raise, current instance kept ---- *)
RestoreWrong_Err ==
    /\ phase \in {"Started", "StartFailed"}
    /\ Same

(* ---- any other public zero-argument method found on the class (the statement says "any sequence of calls"): ---- *)
(* ---- every outcome is allowed, nothing it does may re-arm the instance; afterwards refusals are allowed   ---- *)
Other_Any ==
    /\ touched' = TRUE
    /\ UNCHANGED <<phase, restored, keyOut, finTried, msgs, keys>>

Next == \/ Start_Msg \/ Start_OnceErr \/ Start_OtherErr
        \/ StartRaise_OtherErr \/ StartRaise_OnceErr
        \/ FinValid_Key \/ FinValid_OnceErr \/ FinValid_OtherErr
        \/ FinBad_OnceErr \/ FinBad_OtherErr
        \/ Ser_TooEarly \/ Ser_Blob \/ Ser_OtherErr
        \/ Restore_Inst \/ Restore_Err \/ RestoreWrong_Err
        \/ Other_Any

Spec == Init /\ [][Next]_vars

(* ---- the statement of C07, as invariants over unbounded histories ---- *)
AtMostOneMessage   == msgs <= 1
NoMessageRestored  == restored => msgs = 0
AtMostOneKey       == keys <= 1
KeyNeedsStart      == keys = 1 => phase = "Started"
TypeOK == /\ phase \in {"Fresh", "StartFailed", "Started"} /\ restored \in BOOLEAN
          /\ keyOut \in {0, 1} /\ finTried \in BOOLEAN /\ msgs \in 0..2 /\ keys \in 0..2 /\ touched \in BOOLEAN
=============================================================================
